"""Synthesised (funding tx, spending tx) pairs for every supported output type, signed by the independent signer in pyref."""
import random
from . import pyref as P

OP_DUP, OP_HASH160, OP_EQUALVERIFY, OP_EQUAL, OP_CHECKSIG, OP_CHECKMULTISIG = 0x76, 0xa9, 0x88, 0x87, 0xac, 0xae
KINDS = ["p2pk", "p2pkh", "multisig", "p2sh", "p2wpkh", "p2wsh", "p2sh-p2wpkh", "p2sh-p2wsh", "p2tr-key", "p2tr-script"]


def rb(rnd, n): return bytes(rnd.randrange(256) for _ in range(n))
def sk_of(rnd): return rnd.randrange(1, P.N)
def num(n): return P.push(bytes([n])) if n else b"\x00"


def p2pkh_script(h): return bytes([OP_DUP, OP_HASH160, 20]) + h + bytes([OP_EQUALVERIFY, OP_CHECKSIG])


class Spend:
    """one case: funding tx, spending tx, the input under test, what the construction guarantees"""
    def __init__(self): self.notes = []


def build(rnd, kind, opts=None):
    """returns Spend with .txin (funding), .tx (spending), .idx, .valid (True: valid by construction), .kind, .desc.
    opts: dict of construction choices / mutations"""
    o = dict(opts or {})
    s = Spend(); s.kind = kind; s.opts = o
    n_in = o.get("n_in", rnd.choice((1, 1, 2, 3)))
    n_out = o.get("n_out", rnd.choice((1, 2, 3)))
    idx = o.get("idx", rnd.randrange(n_in))
    if kind.startswith("p2tr"):
        n_in = 1; idx = 0          # btcdeb knows one spent output only (BIP341 needs all of them)
    vout_n = o.get("vout_n", rnd.choice((0, 0, 1, 2)))
    amount = o.get("amount", rnd.choice((0, 1, 546, 100000, 894702400, 2099999997690000)))
    sk = sk_of(rnd); pk = P.pubkey(sk, o.get("compressed", True))
    hashtype = o.get("hashtype", rnd.choice((1, 1, 1, 2, 3, 0x81, 0x82, 0x83)))
    # --- locking script and what unlocks it
    leaf = None; redeem = None; wscript = None; internal = None
    if kind == "p2pk": spk = P.push(pk) + bytes([OP_CHECKSIG])
    elif kind == "p2pkh": spk = p2pkh_script(P.hash160(pk))
    elif kind in ("multisig", "p2sh", "p2wsh", "p2sh-p2wsh"):
        m = o.get("m", rnd.choice((1, 2, 2, 3))); n = max(m, o.get("n", rnd.choice((1, 2, 3, 3))))
        sks = [sk_of(rnd) for _ in range(n)]
        pks = [P.pubkey(k) for k in sks]
        ms = num(m) + b"".join(P.push(k) for k in pks) + num(n) + bytes([OP_CHECKMULTISIG])
        s.ms = (m, n, sks, pks, ms)
        if kind == "multisig": spk = ms
        elif kind == "p2sh": redeem = ms; spk = bytes([OP_HASH160, 20]) + P.hash160(ms) + bytes([OP_EQUAL])
        elif kind == "p2wsh": wscript = ms; spk = b"\x00\x20" + P.sha256(ms)
        else:
            wscript = ms; redeem = b"\x00\x20" + P.sha256(ms); spk = bytes([OP_HASH160, 20]) + P.hash160(redeem) + bytes([OP_EQUAL])
    elif kind == "p2wpkh": spk = b"\x00\x14" + P.hash160(pk)
    elif kind == "p2sh-p2wpkh":
        redeem = b"\x00\x14" + P.hash160(pk); spk = bytes([OP_HASH160, 20]) + P.hash160(redeem) + bytes([OP_EQUAL])
    elif kind in ("p2tr-key", "p2tr-script"):
        isk = sk_of(rnd); internal = P.xonly(isk)
        if P.pmul(isk, P.G)[1] & 1: isk = P.N - isk
        xsk = sk_of(rnd); xpk = P.xonly(xsk)
        leaf_script = o.get("leaf_script", P.push(xpk) + bytes([OP_CHECKSIG]))
        path = [rb(rnd, 32) for _ in range(o.get("path_len", rnd.choice((0, 0, 1, 2, 5))))]
        lh = P.tapleaf(0xc0, leaf_script)
        k = lh
        for e in path: k = P.tapbranch(k, e)
        root = k if (kind == "p2tr-script" or o.get("with_tree", rnd.random() < 0.5)) else b""
        q, par = P.taproot_output(internal, root)
        spk = b"\x51\x20" + q
        s.tap = (isk, internal, xsk, leaf_script, path, lh, root, q, par)
    else: raise ValueError(kind)
    # --- funding tx
    fvout = [(rnd.choice((1000, 5000, 123456789)), rb(rnd, rnd.choice((22, 25, 34)))) for _ in range(vout_n)] + [(amount, spk)]
    fvout += [(7, rb(rnd, 25)) for _ in range(rnd.choice((0, 0, 1)))]
    ftx = (rnd.choice((1, 2)), [(rb(rnd, 32), rnd.randrange(4), rb(rnd, rnd.choice((0, 10))), [], 0xffffffff)], fvout, 0)
    fid = P.txid(ftx)
    # --- spending tx skeleton
    vin = []
    for j in range(n_in):
        if j == idx: vin.append([fid, vout_n, b"", [], o.get("sequence", rnd.choice((0xffffffff, 0xfffffffe, 0, 10)))])
        else: vin.append([rb(rnd, 32), rnd.randrange(3), rb(rnd, rnd.choice((0, 5))), ([rb(rnd, 10)] if o.get("other_witness", rnd.random() < 0.3) else []), 0xffffffff])
    vout = [(rnd.randrange(1, 10 ** 8), rb(rnd, rnd.choice((22, 25, 34)))) for _ in range(n_out)]
    lock = o.get("locktime", rnd.choice((0, 0, 500, 500000001)))
    ver = o.get("version", rnd.choice((1, 2)))
    def tx_now(): return (ver, [tuple(i) for i in vin], vout, lock)
    signed_amount = o.get("signed_amount", amount)
    def ecdsa(skk, digest, ht=hashtype):
        r, ss = P.ecdsa_sign(skk, digest)
        return P.der(r, ss) + bytes([ht & 0xff])
    # --- satisfaction
    if kind == "p2pk":
        vin[idx][2] = P.push(ecdsa(sk, P.legacy_sighash(tx_now(), idx, spk, hashtype)))
    elif kind == "p2pkh":
        vin[idx][2] = P.push(ecdsa(sk, P.legacy_sighash(tx_now(), idx, spk, hashtype))) + P.push(pk)
    elif kind in ("multisig", "p2sh"):
        m, n, sks, pks, ms = s.ms
        which = sorted(rnd.sample(range(n), m))
        sigs = [ecdsa(sks[w], P.legacy_sighash(tx_now(), idx, ms, hashtype)) for w in which]
        vin[idx][2] = b"\x00" + b"".join(P.push(x) for x in sigs) + (P.push(ms) if kind == "p2sh" else b"")
    elif kind in ("p2wsh", "p2sh-p2wsh"):
        m, n, sks, pks, ms = s.ms
        which = sorted(rnd.sample(range(n), m))
        if redeem: vin[idx][2] = P.push(redeem)
        sigs = [ecdsa(sks[w], P.bip143_sighash(tx_now(), idx, ms, signed_amount, hashtype)) for w in which]
        vin[idx][3] = [b""] + sigs + [ms]
    elif kind in ("p2wpkh", "p2sh-p2wpkh"):
        if redeem: vin[idx][2] = P.push(redeem)
        sc = p2pkh_script(P.hash160(pk))
        vin[idx][3] = [ecdsa(sk, P.bip143_sighash(tx_now(), idx, sc, signed_amount, hashtype)), pk]
    elif kind == "p2tr-key":
        isk, internal, xsk, leaf_script, path, lh, root, q, par = s.tap
        t = int.from_bytes(P.tagged("TapTweak", internal + root), "big")
        osk = (isk + t) % P.N
        ht = o.get("hashtype", rnd.choice((0, 0, 1, 2, 3, 0x81, 0x83)))
        annex = (b"\x50" + rb(rnd, rnd.choice((0, 1, 40)))) if o.get("annex", rnd.random() < 0.2) else None
        spent = [(signed_amount, spk)]
        try: d = P.bip341_sighash(tx_now(), idx, spent, ht, annex=annex)
        except IndexError: d = None
        if d is None: d = bytes(32)      # SIGHASH_SINGLE without a matching output: no digest exists, the signature is refused whatever it is
        sig = P.schnorr_sign(osk, d, rb(rnd, 32)) + (bytes([ht]) if ht else b"")
        vin[idx][3] = [sig] + ([annex] if annex is not None else [])
        s.annex = annex
    elif kind == "p2tr-script":
        isk, internal, xsk, leaf_script, path, lh, root, q, par = s.tap
        ht = o.get("hashtype", rnd.choice((0, 0, 1, 2, 3, 0x81, 0x83)))
        annex = (b"\x50" + rb(rnd, rnd.choice((0, 1, 40, 600)))) if o.get("annex", rnd.random() < 0.2) else None
        spent = [(signed_amount, spk)]
        try: d = P.bip341_sighash(tx_now(), idx, spent, ht, annex=annex, leaf_hash=lh)
        except IndexError: d = None
        if d is None: d = bytes(32)
        sig = P.schnorr_sign(xsk, d, rb(rnd, 32)) + (bytes([ht]) if ht else b"")
        control = bytes([0xc0 | par]) + internal + b"".join(path)
        items = o.get("leaf_args", [sig])
        vin[idx][3] = list(items) + [leaf_script, control] + ([annex] if annex is not None else [])
        s.annex = annex
    s.txin = ftx; s.tx = tx_now(); s.idx = idx; s.vout_n = vout_n; s.amount = amount; s.spk = spk
    s.valid = (signed_amount == amount or kind in ("p2pk", "p2pkh", "multisig", "p2sh"))
    if hashtype & 0x1f == 3 and idx >= len(vout) and kind in ("p2pk", "p2pkh", "multisig", "p2sh"): s.valid = True   # the "one" digest still verifies
    if kind.startswith("p2tr") and (o.get("hashtype", 0) & 3) == 3 and idx >= len(vout): s.valid = False
    return s


def mutate(rnd, s):
    """single-field corruption of a valid spend; returns (tx, txin, label).  Every label makes the input invalid
    (modulo fields the hash type leaves uncommitted, which the caller does not rely on: the spec decides)."""
    ver, vin, vout, lock = s.tx
    vin = [list(i) for i in vin]; vout = list(vout)
    fver, fvin, fvout, flock = s.txin
    fvout = list(fvout)
    choices = ["flip-sig-bit", "lock", "seq", "out-value", "extra-wit", "drop-wit", "wrong-prog", "ver"]
    if s.kind in ("p2wpkh", "p2wsh", "p2sh-p2wpkh", "p2sh-p2wsh", "p2tr-key", "p2tr-script"): choices.append("amount")
    if s.kind == "p2tr-script": choices += ["control-parity", "control-node", "control-len", "leaf-version", "script-byte"]
    m = rnd.choice(choices)
    i = vin[s.idx]
    def flip(b, pos=None):
        if not b: return b"\x01"
        pos = rnd.randrange(len(b)) if pos is None else pos
        return b[:pos] + bytes([b[pos] ^ (1 << rnd.randrange(8))]) + b[pos + 1:]
    if m == "flip-sig-bit":
        if i[3]:
            k = 0 if s.kind != "p2wsh" and s.kind != "p2sh-p2wsh" else 1
            i[3] = list(i[3]); i[3][k] = flip(i[3][k])
        else: i[2] = flip(i[2], rnd.randrange(2, min(len(i[2]), 60)))
    elif m == "lock": lock ^= 1 << rnd.randrange(32)
    elif m == "seq": i[4] ^= 1 << rnd.randrange(32)
    elif m == "out-value" and vout: vout[0] = (vout[0][0] ^ 1, vout[0][1])
    elif m == "ver": ver ^= 2
    elif m == "extra-wit": i[3] = [b"\x01"] + list(i[3]) if i[3] else i[3]
    elif m == "drop-wit": i[3] = list(i[3])[1:] if len(i[3]) > 1 else i[3]
    elif m == "amount": fvout[s.vout_n] = (fvout[s.vout_n][0] ^ (1 << rnd.randrange(20)), fvout[s.vout_n][1])
    elif m == "wrong-prog":
        spk = fvout[s.vout_n][1]
        fvout[s.vout_n] = (fvout[s.vout_n][0], flip(spk, len(spk) - 2))
    elif m == "control-parity": w = list(i[3]); k = len(w) - 1 - (1 if s.annex is not None else 0); w[k] = bytes([w[k][0] ^ 1]) + w[k][1:]; i[3] = w
    elif m == "leaf-version": w = list(i[3]); k = len(w) - 1 - (1 if s.annex is not None else 0); w[k] = bytes([w[k][0] ^ 2]) + w[k][1:]; i[3] = w
    elif m == "control-node": w = list(i[3]); k = len(w) - 1 - (1 if s.annex is not None else 0); w[k] = flip(w[k], rnd.randrange(1, len(w[k]))); i[3] = w
    elif m == "control-len": w = list(i[3]); k = len(w) - 1 - (1 if s.annex is not None else 0); w[k] = w[k] + rnd.choice((b"\x00", b"\x00" * 31, b"\x00" * 33)); i[3] = w
    elif m == "script-byte": w = list(i[3]); k = len(w) - 2 - (1 if s.annex is not None else 0); w[k] = flip(w[k], rnd.randrange(1, len(w[k]) - 1)); i[3] = w
    ftx = (fver, fvin, fvout, flock)
    tx = (ver, [tuple(x) for x in vin], vout, lock)
    if m in ("amount", "wrong-prog"):
        # the funding tx changed, so its id changed: repoint the input
        vin2 = [list(x) for x in tx[1]]; vin2[s.idx][0] = P.txid(ftx)
        # ... which changes what was signed, unless ANYONECANPAY-free commitments exclude it; either way the spec decides
        tx = (ver, [tuple(x) for x in vin2], vout, lock)
    return tx, ftx, m


def custom(rnd, spk, script_sig=b"", witness=(), amount=1000, n_in=1, idx=0, vout_n=0, prev_n=None):
    """a pair with the given locking script, scriptSig and witness verbatim (no signatures involved)"""
    fvout = [(5, rb(rnd, 22)) for _ in range(vout_n)] + [(amount, spk)]
    ftx = (1, [(rb(rnd, 32), 0, b"", [], 0xffffffff)], fvout, 0)
    vin = []
    for j in range(n_in):
        if j == idx: vin.append((P.txid(ftx), vout_n if prev_n is None else prev_n, script_sig, list(witness), 0xffffffff))
        else: vin.append((rb(rnd, 32), 0, b"", [], 0xffffffff))
    tx = (1, vin, [(900, rb(rnd, 22))], 0)
    return tx, ftx


def spend_line(tx, ftx, flags, select=-1, z=0, pretend=None, verbose=0, amounts=None):
    txs = P.ser_tx(tx).hex()
    if amounts is not None: txs = ",".join(amounts) + ":" + txs
    return "SPEND %s %s %d %d %d %s %d" % (txs.encode().hex(), P.ser_tx(ftx).hex().encode().hex() if ftx is not None else "-", select, flags, z,
                                           pretend.encode().hex() if pretend else "-", verbose)
