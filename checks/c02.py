"""C02 — signature opcodes accept exactly the signatures valid for the BIP-defined digest.
Layers: (1) the digests and the transaction signature checker (lib_sighash: implementation / model / specification /
independent Python); (2) the signature opcodes executed in sessions with a transaction context: explicit scripts under
the legacy and BIP143 rules, tapscript leaves with OP_CHECKSIG / OP_CHECKSIGADD, signed by the independent signer and
corrupted field by field, under subsets of the encoding flags."""
import random
import re
from . import lib_sighash
from . import runlib as R
from . import pyref as P
from . import spendgen as S

FB = R.FLAG_BITS
ENC_FLAGS = ["DERSIG", "LOW_S", "STRICTENC", "NULLFAIL", "NULLDUMMY", "WITNESS_PUBKEYTYPE", "CONST_SCRIPTCODE", "DISCOURAGE_UPGRADABLE_PUBKEYTYPE"]
OP_CHECKSIG, OP_CHECKSIGVERIFY, OP_CHECKMULTISIG, OP_CHECKMULTISIGVERIFY, OP_CHECKSIGADD, OP_CODESEP = 0xac, 0xad, 0xae, 0xaf, 0xba, 0xab


def rb(rnd, n): return bytes(rnd.randrange(256) for _ in range(n))


def rand_flags(rnd):
    f = R.STD
    k = rnd.randrange(4)
    if k == 0: return f
    if k == 1:
        for n in ENC_FLAGS: f &= ~(1 << FB[n])
        return f
    for n in ENC_FLAGS:
        if rnd.random() < 0.5: f ^= (1 << FB[n])
    return f


def mk_tx(rnd, segwit):
    n_in = rnd.choice((1, 2, 3)); n_out = rnd.choice((0, 1, 2, 3))
    idx = 0     # an explicit-script session checks input 0 unless --txin selects another
    vin = []
    for j in range(n_in):
        w = [rb(rnd, 10)] if (segwit and j == n_in - 1) else []
        vin.append((rb(rnd, 32), rnd.randrange(3), b"", w, rnd.choice((0xffffffff, 0, 5, 0xfffffffe))))
    vout = [(rnd.randrange(1, 10 ** 9), rb(rnd, rnd.choice((22, 25)))) for _ in range(n_out)]
    return (rnd.choice((1, 2)), vin, vout, rnd.choice((0, 500, 500000001))), idx


def sign(rnd, sk, tx, idx, code, ht, segwit, amount, low_s=True, ht_byte=None):
    d = P.bip143_sighash(tx, idx, code, amount, ht) if segwit else P.legacy_sighash(tx, idx, code, ht)
    r, s = P.ecdsa_sign(sk, d, low_s=low_s)
    if not low_s and s <= P.N // 2: s = P.N - s
    return P.der(r, s) + bytes([(ht if ht_byte is None else ht_byte) & 0xff])


def script_cases(rnd, quick):
    """explicit-script sessions: (line, meta)"""
    out = []
    n = 200 if quick else 3000
    for rep in range(n):
        segwit = rnd.random() < 0.5
        tx, idx = mk_tx(rnd, segwit)
        amount = rnd.choice((0, 1, 50000, 21 * 10 ** 14))
        sk = rnd.randrange(1, P.N)
        comp = rnd.random() < 0.8
        pk = P.pubkey(sk, comp)
        ht = rnd.choice((1, 1, 2, 3, 0x81, 0x82, 0x83, rnd.randrange(256)))
        shape = rnd.choice(("checksig", "checksigverify", "codesep-before", "codesep-after", "codesep-unexecuted", "find-and-delete", "multisig", "multisig", "multisigverify"))
        fl = rand_flags(rnd)
        amt_txt = [("%d.%08d" % (amount // 10 ** 8, amount % 10 ** 8))] + ["0"] * (len(tx[1]) - 1)
        if shape in ("checksig", "checksigverify"):
            script = P.push(pk) + bytes([OP_CHECKSIG if shape == "checksig" else OP_CHECKSIGVERIFY]) + (b"\x51" if shape == "checksigverify" else b"")
            code = script
            stack = [sign(rnd, sk, tx, idx, code, ht, segwit, amount)]
        elif shape == "codesep-before":
            pre = bytes([0x51, 0x75, OP_CODESEP])
            tail = P.push(pk) + bytes([OP_CHECKSIG])
            script = pre + tail; code = tail
            stack = [sign(rnd, sk, tx, idx, code, ht, segwit, amount)]
        elif shape == "codesep-after":
            script = P.push(pk) + bytes([OP_CHECKSIG, OP_CODESEP]); code = script
            # legacy: OP_CODESEPARATOR is removed from the script code; BIP143: the script code is taken as is
            stack = [sign(rnd, sk, tx, idx, code, ht, segwit, amount)]
        elif shape == "codesep-unexecuted":
            script = bytes([0x00, 0x63, OP_CODESEP, 0x68]) + P.push(pk) + bytes([OP_CHECKSIG]); code = script
            stack = [sign(rnd, sk, tx, idx, code, ht, segwit, amount)]
        elif shape == "find-and-delete":
            # the signature itself occurs in the script: legacy removes it from the script code (CONST_SCRIPTCODE forbids)
            tail = P.push(pk) + bytes([OP_CHECKSIG])
            sig = sign(rnd, sk, tx, idx, tail, ht, segwit, amount)   # signed over the code WITHOUT the push of the signature
            script = P.push(sig) + bytes([0x75]) + tail if not segwit else tail
            stack = [sig]
        else:
            n_keys = rnd.choice((1, 2, 3)); m = rnd.randrange(0, n_keys + 1)
            sks = [rnd.randrange(1, P.N) for _ in range(n_keys)]
            pks = [P.pubkey(k) for k in sks]
            script = R.pushnum(m) + b"".join(P.push(k) for k in pks) + R.pushnum(n_keys) + bytes([OP_CHECKMULTISIG if shape == "multisig" else OP_CHECKMULTISIGVERIFY]) + (b"\x51" if shape != "multisig" else b"")
            code = script
            # an executed OP_CODESEPARATOR in front: the script code of every signature of the multisig starts behind it (also in v0
            # scripts under CONST_SCRIPTCODE); a signature over the whole script must not verify
            cs_mode = rnd.choice((None, None, "behind", "behind", "whole"))
            if cs_mode:
                script = bytes([0x51, 0x75, OP_CODESEP]) + script
                if cs_mode == "whole": code = script
                shape = shape + "+codesep-" + cs_mode
            which = sorted(rnd.sample(range(n_keys), m))
            if rnd.random() < 0.2: which = which[::-1]
            dummy = b"" if rnd.random() < 0.8 else b"\x01"
            stack = [dummy] + [sign(rnd, sks[w], tx, idx, code, ht, segwit, amount) for w in which]
        label = "valid"
        # lock-time opcodes in front of the signature check: satisfied and unsatisfied against this transaction
        if rnd.random() < 0.35 and shape in ("checksig", "checksigverify"):
            which = rnd.choice(("cltv", "csv"))
            if rnd.random() < 0.7:
                # a transaction against which the lock can be satisfied: version 2, non-final sequence without the disable bit
                vin0 = list(tx[1]); i0 = list(vin0[idx]); i0[4] = rnd.choice((5, 0, 0x400005, 0xfffffffe if which == "cltv" else 7)); vin0[idx] = tuple(i0)
                tx = (2, vin0, tx[2], rnd.choice((500, 500000001, 0)))
            if which == "cltv":
                lockv = tx[3]
                n = rnd.choice((0, 1, 499, 500, 501, 499999999, 500000000, 500000001, 500000002, 0xffffffff, lockv, max(0, lockv - 1), lockv + 1, lockv, lockv))
                pre = R.pushnum(n) + bytes([0xb1, 0x75])
            else:
                seqv = tx[1][idx][4]
                n = rnd.choice((0, 1, 4, 5, 6, 10, 0x400000, 0x400005, 0x80000000, 0xffff, 0x10000, seqv & 0x40ffff, seqv & 0x40ffff, (seqv & 0x40ffff) + 1, max(0, (seqv & 0x40ffff) - 1)))
                pre = R.pushnum(n) + bytes([0xb2, 0x75])
            script = pre + script
            code = script
            stack = [sign(rnd, sk, tx, idx, code, ht, segwit, amount)]
            shape = shape + "+" + which
        # corruption
        c = rnd.randrange(19)
        if rep % 3 != 0 and shape.startswith("multisig") and not segwit and len(stack) > 2 and "codesep" not in shape:
            c = 14          # (often enough to be there in every run)
        if c == 0 and stack:
            j = rnd.randrange(len(stack)); b = bytearray(stack[j])
            if b:
                k = rnd.randrange(len(b)); b[k] ^= 1 << rnd.randrange(8); stack[j] = bytes(b); label = "sig-bit"
        elif c == 1:
            tx = (tx[0], tx[1], tx[2], tx[3] ^ 1); label = "locktime"
        elif c == 2 and tx[2]:
            vo = list(tx[2]); vo[0] = (vo[0][0] ^ 1, vo[0][1]); tx = (tx[0], tx[1], vo, tx[3]); label = "output"
        elif c == 3:
            amt_txt[0] = "%d.%08d" % ((amount + 1) // 10 ** 8, (amount + 1) % 10 ** 8); label = "amount"
        elif c == 4 and stack and stack[-1]:
            stack[-1] = stack[-1][:-1] + bytes([stack[-1][-1] ^ rnd.choice((1, 2, 0x80, 0x40))]); label = "hashtype-byte"
        elif c == 5 and shape in ("checksig", "checksigverify"):
            # high-S variant of a valid signature
            stack = [sign(rnd, sk, tx, idx, code, ht, segwit, amount, low_s=False)]; label = "high-s"
        elif c == 6 and shape in ("checksig", "checksigverify"):
            # hybrid public key encoding of the same key
            full = P.pubkey(sk, False)
            hyb = bytes([6 + (full[-1] & 1)]) + full[1:]
            script = P.push(hyb) + script[len(P.push(pk)):]
            stack = [sign(rnd, sk, tx, idx, script, ht, segwit, amount)]; label = "hybrid-key"
        elif c == 7 and stack:
            stack[-1] = b""; label = "empty-sig"
        elif c == 8 and stack and len(stack[-1]) > 9:
            # non-canonical DER: pad r with a zero byte
            s0 = stack[-1]
            try:
                rl = s0[3]; r0 = s0[4:4 + rl]
                s_ = s0[4 + rl:]
                newr = b"\x00" + r0
                body = b"\x02" + bytes([len(newr)]) + newr + s_[:-1]
                stack[-1] = b"\x30" + bytes([len(body)]) + body + s0[-1:]; label = "der-padding"
            except Exception:
                pass
        elif c in (16, 17, 18) and stack and len(stack[-1]) > 9:
            # structure-aware re-encodings of a VALID signature that only the lax DER parser accepts: R and/or S padded with
            # 1..3 zero bytes, optionally the high-S twin; decisive only with DERSIG, LOW_S and STRICTENC all off
            s0 = stack[-1]
            try:
                rl = s0[3]; r0 = s0[4:4 + rl]; sl = s0[5 + rl]; sv0 = s0[6 + rl:6 + rl + sl]; htb = s0[6 + rl + sl:]
                ri = int.from_bytes(r0, "big"); si = int.from_bytes(sv0, "big")
                if rnd.random() < 0.3: si = P.N - si
                def enc(v, pad):
                    b = v.to_bytes((v.bit_length() + 8) // 8 or 1, "big")
                    return b"\x00" * pad + b
                pr, ps = rnd.choice(((0, 1), (0, 2), (0, 3), (1, 0), (2, 0), (3, 0), (1, 2), (2, 2)))
                rb_, sb_ = enc(ri, pr), enc(si, ps)
                body = b"\x02" + bytes([len(rb_)]) + rb_ + b"\x02" + bytes([len(sb_)]) + sb_
                stack[-1] = b"\x30" + bytes([len(body)]) + body + htb
                fl = R.STD
                for nme in ("DERSIG", "LOW_S", "STRICTENC") + (("NULLFAIL",) if rnd.random() < 0.5 else ()):
                    fl &= ~(1 << FB[nme])
                label = "lax-der-r%d-s%d" % (pr, ps)
            except Exception:
                pass
        elif c == 12 and shape in ("checksig", "checksigverify"):
            # public key of a wrong length (truncated / extended), compressed and uncompressed
            bad = rnd.choice((pk[:-1], pk + b"\x00", P.pubkey(sk, False)[:-1], P.pubkey(sk, False) + b"\x01", b"\x04" + pk[1:], b"\x02" + P.pubkey(sk, False)[1:]))
            script = P.push(bad) + script[len(P.push(pk)):]
            stack = [sign(rnd, sk, tx, idx, script, ht, segwit, amount)]; label = "key-length"
        elif c == 13 and shape.startswith("multisig"):
            stack = stack[1:]; label = "no-dummy"
        elif c == 14 and shape.startswith("multisig") and len(stack) > 1 and not segwit and "codesep" not in shape:
            # a signature of the multisig also occurs in the script (any one of them, not just the first compared): FindAndDelete removes its
            # push from the script code of EVERY signature (CONST_SCRIPTCODE forbids); the signatures are made over the code without it
            code2 = bytes([0x75]) + script
            sigs2 = [sign(rnd, sks[w], tx, idx, code2, ht, segwit, amount) for w in which]
            jj = rnd.randrange(len(sigs2))
            stack = [dummy] + sigs2
            script = P.push(sigs2[jj]) + code2; label = "multisig-find-and-delete"
        elif c == 15:
            # only LOW_S on, the signature not DER at all
            fl = (R.STD | (1 << FB["LOW_S"])) & ~(1 << FB["DERSIG"]) & ~(1 << FB["STRICTENC"])
            if stack and stack[-1]: stack[-1] = b"\x31" + stack[-1][1:]; label = "low-s-only-nonder"
        txs = ",".join(amt_txt) + ":" + P.ser_tx(tx).hex()
        line = "SPEND %s - -1 %d 0 - 0 %s %s" % (txs.encode().hex(), fl, script.hex() or "_", ",".join((x.hex() or "_") for x in stack) or "-")
        out.append((line, {"shape": shape, "label": label, "segwit": segwit, "ht": ht, "flags": fl, "comp": comp}))
    return out


def tap_cases(rnd, quick):
    """tapscript leaves with signature opcodes, via the --txin path"""
    out = []
    for rep in range(80 if quick else 1500):
        xsk = [rnd.randrange(1, P.N) for _ in range(3)]
        xpk = [P.xonly(k) for k in xsk]
        shape = rnd.choice(("checksig", "checksigadd-2of3", "codesep", "unknown-keytype", "empty-key", "budget", "budget-exceeded"))
        if shape == "checksig": leaf = P.push(xpk[0]) + bytes([OP_CHECKSIG]); signers = [0]
        elif shape == "checksigadd-2of3":
            leaf = P.push(xpk[0]) + bytes([OP_CHECKSIG]) + P.push(xpk[1]) + bytes([OP_CHECKSIGADD]) + P.push(xpk[2]) + bytes([OP_CHECKSIGADD, 0x52, 0x9c]); signers = None
        elif shape == "codesep": leaf = bytes([0x51, 0x75, OP_CODESEP, 0x61, OP_CODESEP]) + P.push(xpk[0]) + bytes([OP_CHECKSIG]); signers = [0]
        elif shape == "unknown-keytype": leaf = P.push(rb(rnd, 33)) + bytes([OP_CHECKSIG]); signers = []
        elif shape == "empty-key": leaf = bytes([0x00, OP_CHECKSIG]); signers = []
        elif shape == "budget-exceeded":
            kk = rnd.choice((10, 11, 12, 13, 14, 20))
            leaf = (bytes([0x76]) + P.push(xpk[0]) + bytes([OP_CHECKSIGVERIFY])) * kk; signers = [0]
        else: leaf = (P.push(xpk[0]) + bytes([OP_CHECKSIGVERIFY])) * 8 + b"\x51"; signers = [0] * 8
        # build the spend by hand so that the signatures cover the right code-separator position
        isk = rnd.randrange(1, P.N); internal = P.xonly(isk)
        path = [rb(rnd, 32) for _ in range(rnd.choice((0, 1, 2)))]
        lh = P.tapleaf(0xc0, leaf); k = lh
        for e in path: k = P.tapbranch(k, e)
        q, par = P.taproot_output(internal, k)
        spk = b"\x51\x20" + q
        amount = rnd.choice((1000, 894702400))
        ftx = (2, [(rb(rnd, 32), 0, b"", [], 0xffffffff)], [(amount, spk)], 0)
        vin = [[P.txid(ftx), 0, b"", [], rnd.choice((0xffffffff, 7))]]
        vout = [(900, rb(rnd, 22)) for _ in range(rnd.choice((1, 2)))]
        tx = (2, [tuple(vin[0])], vout, 0)
        ht = rnd.choice((0, 0, 1, 2, 3, 0x81, 0x83))
        annex = (b"\x50" + rb(rnd, 3)) if rnd.random() < 0.2 else None
        def sg(j, pos):
            d = P.bip341_sighash(tx, 0, [(amount, spk)], ht, annex=annex, leaf_hash=lh, codesep_pos=pos)
            return P.schnorr_sign(xsk[j], d, rb(rnd, 32)) + (bytes([ht]) if ht else b"")
        if shape in ("checksig", "budget-exceeded"): items = [sg(0, 0xffffffff)]
        elif shape == "checksigadd-2of3":
            pick = rnd.sample(range(3), 2)
            items = [(sg(j, 0xffffffff) if j in pick else b"") for j in (2, 1, 0)]
        elif shape == "codesep": items = [sg(0, 4)]
        elif shape == "unknown-keytype": items = [rb(rnd, 64)]
        elif shape == "empty-key": items = [rb(rnd, 64)]
        else: items = [sg(0, 0xffffffff) for _ in range(8)]
        label = "valid"
        c = rnd.randrange(8)
        if c == 0 and items and items[0]:
            b = bytearray(items[0]); b[rnd.randrange(len(b))] ^= 1; items[0] = bytes(b); label = "sig-bit"
        elif c == 1 and shape == "codesep":
            items = [sg(0, rnd.choice((0xffffffff, 2, 3, 5)))]; label = "wrong-codesep-pos"
        elif c == 2 and items:
            items[0] = items[0] + b"\x01" if len(items[0]) == 64 else items[0][:64] + b"\x00"; label = "hashtype-append"
        control = bytes([0xc0 | par]) + internal + b"".join(path)
        wit = items + [leaf, control] + ([annex] if annex is not None else [])
        tx2 = (2, [(vin[0][0], 0, b"", wit, vin[0][4])], vout, 0)
        fl = rand_flags(rnd)
        out.append((S.spend_line(tx2, ftx, fl), {"shape": "tap-" + shape, "label": label, "flags": fl}))
    return out


def run(ctx):
    lib_sighash.run(ctx)
    rnd = random.Random(ctx.seed * 2 + 2)
    quick = ctx.tier == "quick"
    cases = script_cases(rnd, quick)
    lines = [c[0] for c in cases]
    impl = ctx.harness_sharded(lines)
    model = ctx.driver_sharded(lines, "model")
    spec = ctx.driver_sharded(lines, "spec")
    strip = lambda l: re.sub(r" verdict=\S+$", "", l)
    ctx.compare("sigops-session", lines, impl, [strip(m) for m in model], None, nontrivial=lambda c, im: "steps=" in im)
    # the outcome against the specification (Spec.evalScript with the BIP digests)
    def outcome(l):
        m = re.search(r"steps=(\d+) (?:hs=\S+ )?end=(\S+) final=(\S*)", l)
        return (m.group(1), m.group(2).replace("EXC", "ERR:1"), m.group(3)) if m else l
    ctx.compare("sigops-outcome", lines, impl, model, spec, observable=outcome)
    hist = {}
    for (l, meta), im in zip(cases, impl):
        k = "%s/%s/%s %s" % (meta["shape"], "v0" if meta["segwit"] else "legacy", meta["label"], (re.search(r"end=(\S+)", im) or [None, im[:20]])[1])
        hist[k] = hist.get(k, 0) + 1
        if meta["label"] == "valid" and meta["ht"] in (1, 2, 3, 0x81, 0x82, 0x83) and meta["shape"] in ("checksig", "codesep-before", "codesep-unexecuted") and meta["comp"] \
                and (meta["shape"] == "checksig" or meta["segwit"] or not (meta["flags"] >> FB["CONST_SCRIPTCODE"]) & 1) and "end=OK final=01" not in im:
            ctx.violation(l, {"stream": "sigops-expect", "impl": im, "meta": meta, "why": "a signature made by the independent signer over the BIP-defined digest was not accepted"})
    ctx.notes.append("sigops histogram: " + "; ".join(f"{k}:{v}" for k, v in sorted(hist.items())))
    # signature opcodes without a transaction: the encoding rules decide alone (every signature shape x key shape, m-of-n mixtures)
    sl = []
    for (sv, script, stack, lab) in R.sigop_cases(rnd, 100 if quick else 3000):
        fl = R.STD
        if rnd.random() < 0.6:
            for nm in R.SIGOP_FLAGS:
                if rnd.random() < 0.35: fl &= ~(1 << FB[nm])
        sl.append(R.run_line(sv, fl, script, stack))
    if quick:
        sl = sl[ctx.seed % 2::2]
    R.three_way(ctx, "sigop-encodings", sl)
    # the script-code start (what an executed OP_CODESEPARATOR moves, and every later digest depends on) through histories with
    # failed steps, retries and rewinds: part of the state every command is compared on
    from .c04 import failing_walks
    fw = [l for l in failing_walks(ctx) if "ab" in l.split(" ")[5]]
    ctx.compare("codesep-failing-walks", fw, ctx.harness_sharded(fw), ctx.driver_sharded(fw, "model"), ctx.driver_sharded(fw, "spec"), observable=R.canon,
                nontrivial=lambda c, im: "!" in im.split(" ")[0])
    # which digest an input is verified with is decided by that input (its own witness, its own output type), not by the other inputs of the
    # transaction: signed spends of every ECDSA kind as the only input and among inputs of which others carry a witness / carry none
    from . import c03 as _c03
    mixed = []
    for kind in S.KINDS:
        if kind.startswith("p2tr"): continue
        for ht in ((1, 0x83) if quick else (1, 2, 3, 0x81, 0x82, 0x83)):
            for opts in ({"n_in": 1}, {"n_in": 3, "other_witness": True}, {"n_in": 3, "other_witness": False}, {"n_in": 2, "other_witness": True, "idx": 0}):
                s_ = S.build(rnd, kind, dict(opts, hashtype=ht))
                mixed.append((S.spend_line(s_.tx, s_.txin, R.STD), {"kind": kind, "label": "mixed-tx" if opts.get("other_witness") else "plain-tx", "built_valid": s_.valid, "flags": R.STD}))
    _c03.verdict_compare(ctx, "signed-spends", mixed)
    # tapscript
    tcases = tap_cases(rnd, quick)
    tl = [c[0] for c in tcases]
    impl = ctx.harness_sharded(tl); model = ctx.driver_sharded(tl, "model"); spec = ctx.driver_sharded(tl, "spec")
    ctx.compare("tapscript-sigops-session", tl, impl, [strip(m) for m in model], None, nontrivial=lambda c, im: "steps=" in im)
    from .c03 import verdict_of_impl, norm
    th = {}
    for (l, meta), im, mo, sp in zip(tcases, impl, model, spec):
        vi = verdict_of_impl(im, meta["flags"]); vs = norm(sp)
        k = "%s/%s impl=%s" % (meta["shape"], meta["label"], vi)
        th[k] = th.get(k, 0) + 1
        if vi != vs:
            ctx.violation(l, {"stream": "tapscript-sigops-verdict", "impl": im, "model": mo, "spec": sp, "meta": meta,
                              "why": "the tapscript session's outcome differs from BIP341/342 validation"})
        if meta["label"] == "valid" and meta["shape"] in ("tap-checksig", "tap-checksigadd-2of3", "tap-codesep") and vi != "VALID":
            ctx.violation(l, {"stream": "tapscript-sigops-expect", "impl": im, "meta": meta, "why": "a tapscript spend signed by the independent signer was not accepted"})
    ctx.count("tapscript-sigops-verdict", len(tl))
    ctx.notes.append("tapscript sigops histogram: " + "; ".join(f"{k}:{v}" for k, v in sorted(th.items())))


def replay(ctx, case):
    if case.startswith("SPEND"):
        print("impl :", ctx.harness([case])[0])
        print("model:", ctx.driver([case])[0])
        print("spec :", ctx.driver([case], "spec")[0])
    else:
        lib_sighash.replay(ctx, case)
