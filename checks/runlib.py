"""Shared helpers for properties decided through the RUN protocol (script execution)."""
import itertools
import random
import re

STD = 2097119
FLAG_BITS = {"P2SH": 0, "STRICTENC": 1, "DERSIG": 2, "LOW_S": 3, "NULLDUMMY": 4, "SIGPUSHONLY": 5, "MINIMALDATA": 6,
             "DISCOURAGE_UPGRADABLE_NOPS": 7, "CLEANSTACK": 8, "CHECKLOCKTIMEVERIFY": 9, "CHECKSEQUENCEVERIFY": 10,
             "WITNESS": 11, "DISCOURAGE_UPGRADABLE_WITNESS_PROGRAM": 12, "MINIMALIF": 13, "NULLFAIL": 14,
             "WITNESS_PUBKEYTYPE": 15, "CONST_SCRIPTCODE": 16, "TAPROOT": 17, "DISCOURAGE_UPGRADABLE_TAPROOT_VERSION": 18,
             "DISCOURAGE_OP_SUCCESS": 19, "DISCOURAGE_UPGRADABLE_PUBKEYTYPE": 20}
EXEC_FLAGS = ["P2SH", "MINIMALDATA", "MINIMALIF", "DISCOURAGE_UPGRADABLE_NOPS", "CHECKLOCKTIMEVERIFY", "CHECKSEQUENCEVERIFY",
              "CONST_SCRIPTCODE", "NULLDUMMY", "NULLFAIL"]
DISABLED = [0x7e, 0x7f, 0x80, 0x81, 0x83, 0x84, 0x85, 0x86, 0x8d, 0x8e, 0x95, 0x96, 0x97, 0x98, 0x99]
OP_SUCCESS = [80, 98] + list(range(126, 130)) + list(range(131, 135)) + [137, 138, 141, 142] + list(range(149, 154)) + list(range(187, 255))


def canon(line):
    """property-level observable: a C++ exception shown as 'exception thrown' is the same failure as
    SCRIPT_ERR_UNKNOWN_ERROR at that operation (DESIGN.md section 6, reading decisions)."""
    if line.startswith("REFUSED"):
        return "REFUSED"        # the property asks for refusal before execution, not for a particular diagnostic
    return line.replace("EXC", "ERR:1")


def item(b):
    return b.hex() if b else "_"


def run_line(sigver, flags, script, stack=(), z=0, weight=None, verbose=False):
    w = "-" if weight is None else str(weight)
    if sigver == 3 and weight is None:
        w = "1000"
    st = ",".join(item(b) for b in stack) if stack else "-"
    return f"{'RUNV' if verbose else 'RUN'} {sigver} {flags} {z} {w} {script.hex() or '-'} {st}"


def scriptnum(n):
    if n == 0:
        return b""
    neg = n < 0
    a = abs(n)
    out = bytearray()
    while a:
        out.append(a & 0xff)
        a >>= 8
    if out[-1] & 0x80:
        out.append(0x80 if neg else 0)
    elif neg:
        out[-1] |= 0x80
    return bytes(out)


def push(d):
    n = len(d)
    if n < 0x4c:
        return bytes([n]) + d
    if n <= 0xff:
        return bytes([0x4c, n]) + d
    if n <= 0xffff:
        return bytes([0x4d]) + n.to_bytes(2, "little") + d
    return bytes([0x4e]) + n.to_bytes(4, "little") + d


def pushnum(n):
    if n == 0:
        return b"\x00"
    if n == -1 or 1 <= n <= 16:
        return bytes([0x50 + n])
    return push(scriptnum(n))


# operand values named by the properties (boundary-rich)
VALUES = [b"", b"\x80", b"\x00", b"\x01", b"\x81", b"\x7f", b"\xff", b"\x80\x00", b"\x80\x80", b"\xff\x00", b"\xff\x80",
          b"\x00\x01", b"\x00\x81", b"\x10", b"\x11", b"\xff\xff\xff\x7f", b"\xff\xff\xff\xff", b"\x00\x00\x00\x80\x00",
          b"\x00\x00\x00\x80\x80", b"\x01\x00", b"\x01\x02\x03\x04\x05", b"\x02", b"\x05", b"abc", b"\x00\x00"]

ARITY = {}
for o in range(0x4f, 0x61):
    ARITY[o] = 0
for o, a in {0x61: 0, 0x62: 0, 0x63: 1, 0x64: 1, 0x65: 0, 0x66: 0, 0x67: 0, 0x68: 0, 0x69: 1, 0x6a: 0, 0x6b: 1, 0x6c: 0,
             0x6d: 2, 0x6e: 2, 0x6f: 3, 0x70: 4, 0x71: 6, 0x72: 4, 0x73: 1, 0x74: 0, 0x75: 1, 0x76: 1, 0x77: 2, 0x78: 2,
             0x79: 3, 0x7a: 3, 0x7b: 3, 0x7c: 2, 0x7d: 2, 0x7e: 2, 0x7f: 3, 0x80: 2, 0x81: 2, 0x82: 1, 0x83: 1, 0x84: 2,
             0x85: 2, 0x86: 2, 0x87: 2, 0x88: 2, 0x89: 0, 0x8a: 0, 0x8b: 1, 0x8c: 1, 0x8d: 1, 0x8e: 1, 0x8f: 1, 0x90: 1,
             0x91: 1, 0x92: 1, 0x93: 2, 0x94: 2, 0x95: 2, 0x96: 2, 0x97: 2, 0x98: 2, 0x99: 2, 0x9a: 2, 0x9b: 2, 0x9c: 2,
             0x9d: 2, 0x9e: 2, 0x9f: 2, 0xa0: 2, 0xa1: 2, 0xa2: 2, 0xa3: 2, 0xa4: 2, 0xa5: 3, 0xa6: 1, 0xa7: 1, 0xa8: 1,
             0xa9: 1, 0xaa: 1, 0xab: 0, 0xac: 2, 0xad: 2, 0xae: 3, 0xaf: 3, 0xb1: 1, 0xb2: 1, 0xba: 3}.items():
    ARITY[o] = a
for o in (0xb0, 0xb3, 0xb4, 0xb5, 0xb6, 0xb7, 0xb8, 0xb9):
    ARITY[o] = 0


def boundary_lines(rnd, ops, z, sigvers=(0, 1, 3), flagsets=(0, STD), full=False, values=None):
    """every opcode x operand tuples from the boundary value set x stack depths 0..arity"""
    vals = values or VALUES
    out = []
    for op in ops:
        ar = ARITY.get(op, 0)
        for depth in range(0, ar + 1):
            if depth == 0:
                tuples = [()]
            elif depth == 1:
                tuples = [(v,) for v in vals]
            elif depth == 2 and (full or len(vals) ** 2 <= 700):
                tuples = list(itertools.product(vals, repeat=2))
            else:
                tuples = [tuple(rnd.choice(vals) for _ in range(depth)) for _ in range(60 if not full else 400)]
            for t in tuples:
                sv = rnd.choice(sigvers)
                fl = rnd.choice(flagsets)
                out.append(run_line(sv, fl, bytes([op]), t, z=z))
                # and inside an unexecuted branch
                if depth == 0:
                    out.append(run_line(sv, fl, bytes([0x00, 0x63, op, 0x68, 0x51]), (), z=z))
    return out


def is_nontrivial(case, impl):
    """a RUN case is non-trivial when the implementation executed at least one operation"""
    m = re.match(r"steps=(\d+)", impl)
    return bool(m and int(m.group(1)) >= 1)


def three_way(ctx, stream, lines, region=None, shards=16):
    impl = ctx.harness_sharded(lines, shards)
    model = ctx.driver_sharded(lines, "model", shards)
    spec = ctx.driver_sharded(lines, "spec", shards)
    bad = ctx.compare(stream, lines, impl, model, spec, observable=canon, region=region, nontrivial=is_nontrivial)
    return impl, model, spec, bad


def histogram(ctx, impl, key):
    h = {}
    for l in impl:
        m = re.search(r"end=(\S+)", l)
        k = m.group(1) if m else l.split(" ")[0]
        h[k] = h.get(k, 0) + 1
    ctx.notes.append({key: dict(sorted(h.items(), key=lambda kv: -kv[1])[:40])})


# ---------------------------------------------------------------------------------------------------------------
# signature opcodes without a transaction: every (signature shape, key shape) pairing, where the encoding rules
# (DERSIG, LOW_S, STRICTENC, WITNESS_PUBKEYTYPE, NULLFAIL, NULLDUMMY) decide alone
def _der(r, s, ht):
    def i(n):
        b = n.to_bytes((n.bit_length() + 7) // 8 or 1, "big")
        if b[0] & 0x80: b = b"\x00" + b
        return b"\x02" + bytes([len(b)]) + b
    body = i(r) + i(s)
    return b"\x30" + bytes([len(body)]) + body + bytes([ht])

SIG_SHAPES = {
    "empty": b"",
    "der-low": _der(1, 1, 1),
    "der-high-s": _der(1, 0xFFFFFFFFFFFFFFFFFFFFFFFFFFFFFFFEBAAEDCE6AF48A03BBFD25E8CD0364140, 1),
    "der-undefined-hashtype": _der(1, 1, 5),
    "der-zero-hashtype": _der(1, 1, 0),
    "non-der": bytes.fromhex("300602010102010201")[:-3] + b"\x01",
    "padded-der": bytes.fromhex("3008020200010202000101"),
    "one-byte": b"\x01",
    "64-bytes": bytes(range(64)),
}
KEY_SHAPES = {
    "compressed": b"\x02" + b"\x11" * 32,
    "compressed-odd": b"\x03" + b"\x22" * 32,
    "uncompressed": b"\x04" + b"\x33" * 64,
    "hybrid": b"\x06" + b"\x33" * 64,
    "prefix-05": b"\x05" + b"\x11" * 32,
    "two-bytes": b"\x02\x02",
    "empty": b"",
    "xonly-32": b"\x44" * 32,
    "34-bytes": b"\x02" + b"\x11" * 33,
}
SIGOP_FLAGS = ("DERSIG", "LOW_S", "STRICTENC", "WITNESS_PUBKEYTYPE", "NULLFAIL", "NULLDUMMY", "CONST_SCRIPTCODE", "MINIMALDATA")


def sigop_cases(rnd, n_multi=400):
    """(sigver, script, stack, label): OP_CHECKSIG / VERIFY / CHECKSIGADD on every (sig, key) shape pair, OP_CHECKMULTISIG / VERIFY on
    m-of-n mixtures; each also wrapped in OP_NOT so that a failed check that is allowed to fail shows as success"""
    out = []
    for sn, sg in SIG_SHAPES.items():
        for kn, k in KEY_SHAPES.items():
            for sv in (0, 1, 3):
                out.append((sv, bytes([0xac]), [sg, k], f"checksig {sn}/{kn}"))
                out.append((sv, bytes([0xac, 0x91]), [sg, k], f"checksig-not {sn}/{kn}"))
            out.append((0, bytes([0xad, 0x51]), [sg, k], f"checksigverify {sn}/{kn}"))
            out.append((3, bytes([0xba]), [sg, b"", k], f"checksigadd {sn}/{kn}"))
            # the counter operand is a number like any other: decoded (size, minimality) whatever the signature is
            nn = [b"\x01", b"\x01\x00", b"\x00", b"\x80", b"\xff\xff\xff\x7f", b"\x01\x02\x03\x04\x05", b"\x00" * 5, b"\x10"]
            n_op = nn[(len(out) // 7) % len(nn)]
            out.append((3, bytes([0xba]), [sg, n_op, k], f"checksigadd n={n_op.hex()} {sn}/{kn}"))
            for sv in (0, 1):
                out.append((sv, bytes([0xae, 0x91]), [b"", sg, b"\x01", k, b"\x01"], f"multisig-1of1-not {sn}/{kn}"))
                out.append((sv, bytes([0xae]), [b"", sg, b"\x01", k, b"\x01"], f"multisig-1of1 {sn}/{kn}"))
    sigs = list(SIG_SHAPES.items()); keys = list(KEY_SHAPES.items())
    for _ in range(n_multi):
        n = rnd.choice((1, 2, 2, 3, 4))
        m = rnd.randrange(0, n + 1)
        ks = [rnd.choice(keys) for _ in range(n)]
        ss = [rnd.choice(sigs) if rnd.random() < 0.6 else ("empty", b"") for _ in range(m)]
        dummy = rnd.choice((b"", b"", b"\x01"))
        stack = [dummy] + [s for _, s in ss] + [scriptnum(m)] + [k for _, k in ks] + [scriptnum(n)]
        lab = "multisig %d-of-%d sigs=%s keys=%s" % (m, n, "+".join(a for a, _ in ss), "+".join(a for a, _ in ks))
        sv = rnd.choice((0, 0, 1))
        out.append((sv, bytes([0xae]) + (bytes([0x91]) if rnd.random() < 0.5 else b""), stack, lab))
        out.append((sv, bytes([0xaf, 0x51]), stack, lab + " verify"))
    return out


def flag_chain(rnd, top, names, k=None):
    """a chain top = A0 ⊇ A1 ⊇ ... obtained by dropping the named flags one at a time in a random order"""
    bits = [FLAG_BITS[n] for n in names if top >> FLAG_BITS[n] & 1]
    rnd.shuffle(bits)
    chain = [top]; cur = top
    for b in bits[: (k if k is not None else len(bits))]:
        cur &= ~(1 << b)
        chain.append(cur)
    return chain
