"""C17 — re-enabled opcodes compute the functions their names denote."""
import itertools
import random
from . import runlib as R

# boundary-rich operand set named by the property
V17 = [b"", b"\x80", b"\x00", b"\x01", b"\x81", b"\x7f", b"\xff", b"\x80\x00", b"\x80\x80", b"\xff\x00", b"\xff\x80",
       b"\x00\x01", b"\x00\x81", b"\xff\xff\xff\x7f", b"\xff\xff\xff\xff", b"\x02", b"\x03", b"\x05", b"\x06", b"\x3f", b"\x40",
       b"\x41", b"abc", b"\x01\x02\x03\x04\x05", b"\x00\x00\x00\x80\x00", b"\xff\xff\xff\xff\x7f", b"\xff\xff\xff\xff\xff",
       # 5-byte numbers at and above 2^32 whose low 32 bits are small (a count / divisor / factor narrowed to 32 bits would look harmless)
       b"\x00\x00\x00\x00\x01", b"\x04\x00\x00\x00\x01", b"\x10\x00\x00\x00\x02", b"\x3e\x00\x00\x00\x01", b"\x01\x00\x00\x00\x81", b"\x00\x01", b"\xff\x7f"]


def lines(ctx):
    rnd = random.Random(ctx.seed + 17)
    out = []
    for op in R.DISABLED:
        ar = R.ARITY[op]
        for z in (1, 0):
            # exhaustive over the value set for arity <= 2; arity 3 (SUBSTR): exhaustive over a reduced set
            vals = V17
            if ar <= 2:
                tuples = list(itertools.product(vals, repeat=ar))
            else:
                small = [b"", b"\x00", b"\x01", b"\x02", b"\x03", b"\x04", b"\x81", b"\x80", b"\xff\x00", b"abc", b"\x01\x02\x03\x04\x05", b"\x01\x00"]
                tuples = [(a, b, c) for a in (b"", b"abc", b"\x01\x02\x03\x04\x05") for b in small for c in small]
            for t in tuples:
                sv = (len(out) % 3, 0, 1)[0] if z else 0
                sv = (0, 1, 3)[len(out) % 3]
                fl = (0, R.STD)[(len(out) // 3) % 2]
                out.append(R.run_line(sv, fl, bytes([op]), t, z=z))
            # fewer operands than needed
            for d in range(ar):
                out.append(R.run_line(0, 0, bytes([op]), tuple(rnd.choice(vals) for _ in range(d)), z=z))
            # inside an unexecuted branch, with and without the option
            for sv in (0, 1, 3):
                out.append(R.run_line(sv, 0, bytes([0x00, 0x63, op, 0x68, 0x51]), (), z=z))
                out.append(R.run_line(sv, R.STD, bytes([0x51, 0x63, 0x67, op, 0x68, 0x51]), (), z=z))
    # OP_CAT: the result is a stack element (at most 520 bytes)
    for (a, b) in ((260, 260), (260, 261), (520, 0), (0, 520), (519, 1), (519, 2), (1, 520), (300, 300), (520, 520)):
        for sv in (0, 1, 3):
            out.append(R.run_line(sv, 0, bytes([0x7e, 0x82]), (b"\x61" * a, b"\x62" * b), z=1))
    out.append(R.run_line(0, 0, bytes([0x51]) + bytes([0x76, 0x7e]) * 12, (), z=1))
    # results fed into further arithmetic
    for _ in range(400 if ctx.tier == "quick" else 20000):
        op = rnd.choice(R.DISABLED)
        a, b = rnd.choice(V17), rnd.choice(V17)
        tail = bytes([rnd.choice((0x8b, 0x82, 0x76, 0x91, 0x87))])
        out.append(R.run_line(rnd.choice((0, 1)), 0, R.push(a) + R.push(b) + bytes([op]) + tail, (), z=1))
    return out


def exec_lines(ctx):
    """the gate is the same wherever the opcode comes from: `exec <operands> OP_X` in sessions of every script version, with and
    without the option, executed and inside an unexecuted branch"""
    from .c16 import exec_line
    out = []
    for op in R.DISABLED:
        ar = R.ARITY[op]
        operands = [["0102", "03", "01"][:ar], ["6", "3", "1"][:ar]]
        for sv in (0, 1, 3):
            for z in (0, 1):
                for fl in (R.STD, 0):
                    for opnds in operands:
                        out.append(exec_line(sv, fl, b"\x51", [], b"", 0, list(opnds) + ["OP_x%02x" % op], z=z, weight=(1000 if sv == 3 else None)))
                    out.append(exec_line(sv, fl, b"\x51", [], b"", 1, ["OP_0", "OP_IF", "OP_x%02x" % op, "OP_ENDIF"], z=z, weight=(1000 if sv == 3 else None)))
    return out


def option_sessions(ctx):
    """the real binary in an interactive session: the gate answers to -z alone, whatever other options are given"""
    import os, sys
    from concurrent.futures import ThreadPoolExecutor
    sys.path.insert(0, os.path.join(os.path.dirname(os.path.dirname(os.path.abspath(__file__))), "harness"))
    import ptyrun
    NAMES = {0x7e: "OP_CAT", 0x7f: "OP_SUBSTR", 0x80: "OP_LEFT", 0x81: "OP_RIGHT", 0x83: "OP_INVERT", 0x84: "OP_AND", 0x85: "OP_OR", 0x86: "OP_XOR",
             0x8d: "OP_2MUL", 0x8e: "OP_2DIV", 0x95: "OP_MUL", 0x96: "OP_DIV", 0x97: "OP_MOD", 0x98: "OP_LSHIFT", 0x99: "OP_RSHIFT"}
    optsets = [[], ["-v"], ["--verbose"], ["-q"], ["--debug=sighash,signing"], ["-v", "-f-MINIMALDATA"], ["-z"], ["-v", "-z"], ["--allow-disabled-opcodes", "-q"]]
    jobs = []
    for op in R.DISABLED:
        for i, opts in enumerate(optsets):
            if ctx.tier == "quick" and i not in (0, 1, 6, 7) and (op + i + ctx.seed) % 3: continue
            ar = R.ARITY[op]
            jobs.append((op, opts, "[" + " ".join(["3", "2", "1"][:ar]) + " " + NAMES[op] + "]", "step\n" * (ar + 1) + "\x04", False))
            jobs.append((op, opts, "[OP_0 OP_IF " + NAMES[op] + " OP_ENDIF OP_1]", "step\n" * 5 + "\x04", True))
    def one(j):
        op, opts, text, inp, skipped = j
        return ptyrun.run([os.path.join(ctx.bin, "btcdeb")] + opts + [text], "tty", "tty", inp)
    with ThreadPoolExecutor(max_workers=16) as ex:
        res = list(ex.map(one, jobs))
    for (op, opts, text, inp, skipped), (rc, out, err) in zip(jobs, res):
        ctx.count("option-sessions", 1)
        ctx.nontrivial.add("optsess:%02x:%s:%d" % (op, " ".join(opts), skipped))
        allowed = "-z" in opts or "--allow-disabled-opcodes" in opts
        refused = "disabled opcode" in err or "disabled opcode" in out
        if refused == allowed or rc != 0:
            ctx.violation("btcdeb %s '%s' ## steps" % (" ".join(opts), text),
                          {"stream": "option-sessions", "why": "a disabled opcode must be refused exactly when --allow-disabled-opcodes is not given, whatever the other options",
                           "opcode": "%02x" % op, "options": opts, "allowed": allowed, "refused": refused, "rc": rc, "stdout": out[-400:], "stderr": err[-400:]})


def run(ctx):
    option_sessions(ctx)
    ls = lines(ctx)
    impl, model, spec, bad = R.three_way(ctx, "reenabled-opcodes", ls)
    R.histogram(ctx, impl, "outcomes")
    el = exec_lines(ctx)
    from .c16 import canon as canon16, nontrivial as nontrivial16
    ctx.compare("reenabled-opcodes-exec", el, ctx.harness_sharded(el), ctx.driver_sharded(el, "model"), ctx.driver_sharded(el, "spec"), observable=canon16, nontrivial=nontrivial16)
    deep = ctx.driver_gen(["run", ctx.seed + 17, 3000 if ctx.tier == "quick" else 100000, 40, 1])
    R.three_way(ctx, "deep-with-z", deep)
    ctx.exhaustive = True
    ctx.notes.append("exhaustive over the boundary value set: every operand pair for each of the 15 opcodes, with and without --allow-disabled-opcodes")


def replay(ctx, case):
    v = case.replace("RUN ", "RUNV ", 1) if case.startswith("RUN ") else case
    print("impl :", ctx.harness([v])[0])
    print("model:", ctx.driver([v])[0])
    print("spec :", ctx.driver([v], "spec")[0])
