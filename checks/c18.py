"""C18 — script-number encoding is a bijection on minimal encodings."""
import random
import re
from . import runlib as R


def gen_lines(ctx):
    rnd = random.Random(ctx.seed)
    lines = []
    # all byte strings of length 0..2, both minimality modes, default and lock-time size limits
    for ln in range(0, 3):
        for k in range(256 ** ln):
            h = k.to_bytes(ln, "little").hex() or "-"
            lines.append(f"SN {h} 0 4")
            lines.append(f"SN {h} 1 4")
    # stratified 3..5 (and 6) byte strings: boundary bytes in the top two positions
    edge = [0x00, 0x01, 0x7f, 0x80, 0x81, 0xff]
    for ln in (3, 4, 5, 6):
        for top in edge:
            for prev in edge:
                for _ in range(6):
                    body = bytes(rnd.randrange(256) for _ in range(ln - 2)) + bytes([prev, top])
                    for rm in (0, 1):
                        for mx in (4, 5):
                            lines.append(f"SN {body.hex()} {rm} {mx}")
        for _ in range(300 if ctx.tier == "quick" else 20000):
            body = bytes(rnd.randrange(256) for _ in range(ln))
            lines.append(f"SN {body.hex()} {rnd.randrange(2)} {rnd.choice((4, 5))}")
    # integers: dense around 0 and around every power of 256 up to +-2^63
    span = 1 << 13 if ctx.tier == "quick" else 1 << 17
    ints = set(range(-span, span + 1))
    for p in range(1, 64):
        for d in range(-3, 4):
            for s in (1, -1):
                v = s * ((1 << p) + d)
                if -(1 << 63) < v < (1 << 63):
                    ints.add(v)
    for p in (7, 8, 15, 16, 23, 24, 31, 32, 39, 40, 47, 48, 55, 56):
        for d in range(-300, 300):
            for s in (1, -1):
                ints.add(s * ((1 << p) + d))
    ints.add((1 << 63) - 1)
    ints.add(-(1 << 63) + 1)
    for _ in range(2000):
        ints.add(rnd.randrange(-(1 << 63) + 1, 1 << 63))
    for v in sorted(ints):
        lines.append(f"SNENC {v}")
    return lines


def use_site_lines(ctx):
    """every opcode that reads a number applies the codec with its own size limit (4 bytes; 5 for the two lock-time opcodes)"""
    rnd = random.Random(ctx.seed + 18)
    edge = [0x00, 0x01, 0x7f, 0x80, 0x81, 0xff]
    operands = [b"", b"\x00", b"\x80", b"\x01", b"\x81", b"\x7f", b"\xff"]
    for ln in (2, 3, 4, 5, 6):
        for top in edge:
            for prev in edge:
                operands.append(bytes(rnd.randrange(256) for _ in range(ln - 2)) + bytes([prev, top]))
    operands += [bytes.fromhex(h) for h in ("0000008000", "ffffffff00", "0100000001", "0000008080", "0000800000", "0000000080",
                                            "ffffff7f", "ffffffff", "00000080", "ffffffff7f", "ffffffffff", "0000000001")]
    # (opcode, items below the operand, operand position from top is 0)
    sites = [(0x8b, []), (0x8c, []), (0x8f, []), (0x90, []), (0x91, []), (0x92, []), (0x93, [b"\x01"]), (0x94, [b"\x01"]),
             (0x9a, [b"\x01"]), (0x9c, [b"\x01"]), (0x9f, [b"\x01"]), (0xa3, [b"\x01"]), (0xa5, [b"\x01", b"\x02"]),
             (0x79, [b"\x05", b"\x06"]), (0x7a, [b"\x05", b"\x06"]), (0xb1, []), (0xb2, []), (0xae, [b""])]
    lines = []
    for op, below in sites:
        for v in operands:
            for flags in (R.STD, R.STD & ~(1 << R.FLAG_BITS["MINIMALDATA"]), 0):
                for sv in ((0, 1, 3) if op != 0xae else (0, 1)):
                    lines.append(R.run_line(sv, flags, bytes([op]), list(below) + [v]))
    # OP_CHECKSIGADD reads its counter from the middle of its three operands, whatever the signature turns out to be
    for v in operands:
        for sig in (b"", bytes(range(64))):
            for flags in (R.STD, R.STD & ~(1 << R.FLAG_BITS["MINIMALDATA"])):
                lines.append(R.run_line(3, flags, bytes([0xba]), [sig, v, b"\x44" * 32]))
                lines.append(R.run_line(3, flags, bytes([0xba]), [sig, v, b""]))
    # OP_CHECKMULTISIG: the signature count below one key
    for v in operands:
        for sv in (0, 1):
            lines.append(R.run_line(sv, R.STD, bytes([0xae]), [b"", v, b"\x02" + b"\x11" * 32, b"\x01"]))
    # the operand in second position of binary operators
    for op in (0x93, 0x94, 0x9f, 0xa4):
        for v in operands:
            lines.append(R.run_line(0, R.STD, bytes([op]), [v, b"\x01"]))
    return lines


def literal_lines(ctx):
    """decimal literals through the assembler: the debugger's text -> number conversion must agree with the codec"""
    rnd = random.Random(ctx.seed + 181)
    ints = set()
    for p in range(0, 64):
        for d in range(-2, 3):
            for sg in (1, -1):
                v = sg * ((1 << p) + d)
                if -(1 << 63) <= v < (1 << 63):
                    ints.add(v)
    for k in range(1, 20):
        for sg in (1, -1):
            for v in (10 ** k, 10 ** k - 1, 10 ** k + 1, 2 * 10 ** k, 9 * 10 ** (k - 1) + 7):
                if -(1 << 63) <= sg * v < (1 << 63):
                    ints.add(sg * v)
    ints.update((-(1 << 63), (1 << 63) - 1, -(1 << 63) + 1, -9223372036854775807, -1000000000000000000, -999999999999999999))
    for _ in range(300 if ctx.tier == "quick" else 20000):
        ints.add(rnd.randrange(-(1 << 63), 1 << 63))
    lines = []
    for v in sorted(ints):
        t = str(v)
        lines.append("BTCC " + t.encode().hex())
        lines.append("BTCC " + ("[" + t + " OP_SIZE]").encode().hex())
    return lines


def sweep_lines(ctx):
    lines = []
    if ctx.tier == "thorough":
        # all 2^32+2^24+2^16+2^8+1 strings of length 0..4, in blocks of 2^20
        for ln in range(0, 5):
            total = 256 ** ln
            blk = 1 << 20
            for lo in range(0, total, blk):
                lines.append(f"SNSWEEP {ln} {lo} {min(total, lo + blk)}")
    else:
        for ln in range(0, 3):
            lines.append(f"SNSWEEP {ln} 0 {256 ** ln}")
        lines.append("SNSWEEP 3 0 1048576")
        lines.append(f"SNSWEEP 4 {0x7f000000} {0x7f000000 + 262144}")
        lines.append(f"SNSWEEP 4 {0x80000000 - 131072} {0x80000000 + 131072}")
    return lines


def bisect_sweep(ctx, line):
    """A differing block is bisected to a single string."""
    _, ln, lo, hi = line.split()
    ln, lo, hi = int(ln), int(lo), int(hi)
    while hi - lo > 1:
        mid = (lo + hi) // 2
        l1 = f"SNSWEEP {ln} {lo} {mid}"
        if ctx.harness([l1]) != ctx.driver([l1]):
            hi = mid
        else:
            lo = mid
    h = lo.to_bytes(ln, "little").hex() or "-"
    return [f"SN {h} 0 8", f"SN {h} 1 8"]


def run(ctx):
    lines = gen_lines(ctx)
    impl = ctx.harness_sharded(lines)
    model = ctx.driver_sharded(lines, "model")
    spec = ctx.driver_sharded(lines, "spec")
    ctx.compare("scriptnum", lines, impl, model, spec)
    R.three_way(ctx, "scriptnum-use-sites", use_site_lines(ctx))
    # the two lock-time opcodes read numbers of up to 5 bytes and compare them as decoded (no clamping to 32 bits): operands
    # around and above 2^31 / 2^32 whose low bits the transaction satisfies, in the checker with a real transaction
    from . import lib_sighash as LS
    rnd = random.Random(ctx.seed * 18 + 5)
    lk = []
    for _ in range(60 if ctx.tier == "quick" else 3000):
        tx = LS.rand_tx(rnd)
        nin = rnd.randrange(len(tx.vin))
        seq = tx.vin[nin][3]
        low = seq & 0x40ffff
        for hi in (1, 2, 0x40, 0x7f, 0x80, 0xff, 0x7fff):
            for lo31 in (0, 1):
                v = (hi << 32) | (lo31 << 31) | (rnd.choice((low, low, max(0, low - 1), low + 1, seq & 0x7fffffff, 5)) & 0x7fffffff)
                if v < (1 << 39):
                    lk.append(f"CHECKLOCK S {tx.hex()} {nin} {v}")
        for v in (tx.locktime, (1 << 32) | (tx.locktime & 0xffffffff), (1 << 32) + 5, (1 << 31) + 5, (1 << 39) - 1, 0x7fffffff, 0x80000000, 0xffffffff):
            lk.append(f"CHECKLOCK L {tx.hex()} {nin} {v}")
    ctx.compare("locktime-use-sites", lk, ctx.harness_sharded(lk), ctx.driver_sharded(lk, "model"), ctx.driver_sharded(lk, "spec"), nontrivial=lambda c, im: im == "1")
    # the same decoding rules when the operation comes from `exec` instead of the script (size limit, minimal encoding)
    from .c16 import exec_line, canon as canon16
    el = []
    ops = ["OP_1ADD", "OP_1SUB", "OP_NEGATE", "OP_ABS", "OP_NOT", "OP_0NOTEQUAL", "OP_PICK", "OP_ROLL", "OP_CHECKLOCKTIMEVERIFY", "OP_CHECKSEQUENCEVERIFY"]
    operands = [b"", b"\x00", b"\x80", b"\x05\x00", b"\x00\x00", b"\x05\x80", b"\xff\xff\xff\x7f", b"\x00\x00\x00\x80\x00", b"\x01\x02\x03\x04\x05", b"\x01\x02\x03\x04\x05\x06", b"\x01"]
    for opn in ops:
        for v in operands:
            for fl in (R.STD, R.STD & ~(1 << R.FLAG_BITS["MINIMALDATA"])):
                for sv in (0, 1, 3):
                    el.append(exec_line(sv, fl, b"\x51", [b"\x07", v], b"", 0, [opn], weight=(1000 if sv == 3 else None)))
    for v in operands:
        el.append(exec_line(0, R.STD, b"\x51", [v, b"\x01"], b"", 0, ["OP_ADD"]))
        el.append(exec_line(0, R.STD, b"\x51", [b"\x01", v], b"", 0, ["OP_ADD"]))
        el.append(exec_line(3, R.STD, b"\x51", [b"", v, b"\x44" * 32], b"", 0, ["OP_CHECKSIGADD"], weight=1000))
    # decimal literals typed into exec are numbers like the literals of a script, across the 32-bit boundary too
    for v in (17, 127, 128, 32767, 32768, 2147483647, 2147483648, 2147483649, 4294967295, 4294967296, 99999999999, 549755813887, 9223372036854775807,
              -17, -2147483647, -2147483648, -2147483649, -4294967296, -9223372036854775807):
        el.append(exec_line(0, 0, b"\x51", [], b"", 0, [str(v)]))
        el.append(exec_line(0, 0, b"\x51", [], b"", 0, [str(v), "OP_SIZE"]))
    ctx.compare("scriptnum-use-sites-exec", el, ctx.harness_sharded(el), ctx.driver_sharded(el, "model"), ctx.driver_sharded(el, "spec"), observable=canon16,
                nontrivial=lambda c, im: "result=" in im)
    for l, im in zip(el, ctx.harness_sharded(el)):
        w = l.split(" ")
        if w[-1].lstrip("-").isdigit():
            want = R.scriptnum(int(w[-1])).hex()
            m = re.search(r"result=OK after=([0-9a-f_,]*)\|", im)
            if not m or m.group(1).split(",")[-1] != want:
                ctx.violation(l, {"stream": "exec-literals", "impl": im[-200:], "expected_top": want, "why": "a decimal literal typed into exec is not pushed as that number"})
    ll = literal_lines(ctx)
    ctx.compare("decimal-literals", ll, ctx.harness_sharded(ll), ctx.driver_sharded(ll, "model"), ctx.driver_sharded(ll, "spec"))
    sw = sweep_lines(ctx)
    impl = ctx.harness_sharded(sw, shards=16) if len(sw) >= 64 else [ctx.harness([l])[0] for l in sw]
    model = ctx.driver_sharded(sw, "model", shards=16) if len(sw) >= 64 else [ctx.driver([l])[0] for l in sw]
    nstr = 0
    for l, a, b in zip(sw, impl, model):
        _, ln, lo, hi = l.split()
        nstr += int(hi) - int(lo)
        if a != b:
            cases = bisect_sweep(ctx, l)
            i2, m2, s2 = ctx.harness(cases), ctx.driver(cases), ctx.driver(cases, "spec")
            ctx.compare("scriptnum-sweep-bisected", cases, i2, m2, s2)
    ctx.count("scriptnum-sweep-strings", nstr)
    ctx.sample({"stream": "scriptnum-sweep", "case": sw[0], "impl": impl[0]})
    if ctx.tier == "thorough":
        ctx.exhaustive = True
        ctx.notes.append("thorough: all 2^32+2^24+2^16+2^8+1 byte strings of length 0..4 swept (value, minimality verdict, re-encoding) in 2^20 blocks")


def replay(ctx, case):
    print("impl :", ctx.harness([case])[0])
    print("model:", ctx.driver([case])[0])
    print("spec :", ctx.driver([case], "spec")[0])
