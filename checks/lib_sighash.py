"""Transaction signature digests (legacy, BIP143, BIP341/342) and the transaction signature checker:
stream generator, three-way comparison implementation / model / specification, and an independent Python
implementation of the three digests (hashlib) plus a pure-Python secp256k1 signer as a fourth voice.

Commands (harness/cmd_sighash.inc, lean/Driver/Sighash.lean): SIGHASH, PRECOMP, CHECKSIGTX, CHECKLOCK, INSTTXDATA.
The spec mode of the driver answers N/A outside the hypotheses of the theorems (input index out of range, data not
ready, execution data not initialised, script code that does not decode): there the comparison is implementation
against model only, and the number of such cases is reported per stream.
"""
import hashlib
import random

# --------------------------------------------------------------------------------------------- encoding


def cs(n):
    if n < 253:
        return bytes([n])
    if n <= 0xffff:
        return b"\xfd" + n.to_bytes(2, "little")
    if n <= 0xffffffff:
        return b"\xfe" + n.to_bytes(4, "little")
    return b"\xff" + n.to_bytes(8, "little")


def sha(b):
    return hashlib.sha256(b).digest()


def dsha(b):
    return sha(sha(b))


def le32(n):
    return (n & 0xffffffff).to_bytes(4, "little")


def le64s(v):
    return (v & 0xffffffffffffffff).to_bytes(8, "little")


class Tx:
    """version (int32), vin = [(txid32, n, scriptSig, sequence, [witness items])], vout = [(value int64, spk)], locktime"""

    def __init__(self, version, vin, vout, locktime):
        self.version, self.vin, self.vout, self.locktime = version, vin, vout, locktime

    def ser(self, witness=True):
        has_w = witness and any(i[4] for i in self.vin)
        out = (self.version & 0xffffffff).to_bytes(4, "little")
        if has_w:
            out += b"\x00\x01"
        out += cs(len(self.vin))
        for (h, n, ss, seq, _w) in self.vin:
            out += h + le32(n) + cs(len(ss)) + ss + le32(seq)
        out += cs(len(self.vout))
        for (v, spk) in self.vout:
            out += le64s(v) + cs(len(spk)) + spk
        if has_w:
            for i in self.vin:
                out += cs(len(i[4]))
                for it in i[4]:
                    out += cs(len(it)) + it
        return out + le32(self.locktime)

    def hex(self):
        return self.ser().hex()

    def txid(self):
        return dsha(self.ser(False))


def ser_out(o):
    return le64s(o[0]) + cs(len(o[1])) + o[1]


# --------------------------------------------------------------------------------------------- the three digests, from the texts


def script_ops(sc):
    """[(opcode, start, end)] of the instructions that decode, and the offset where decoding stopped"""
    ops = []
    i = 0
    n = len(sc)
    while i < n:
        op = sc[i]
        j = i + 1
        if op <= 0x4e:
            if op < 0x4c:
                ln = op
            else:
                w = {0x4c: 1, 0x4d: 2, 0x4e: 4}[op]
                if j + w > n:
                    return ops, i
                ln = int.from_bytes(sc[j:j + w], "little")
                j += w
            if j + ln > n:
                return ops, i
            j += ln
        ops.append((op, i, j))
        i = j
    return ops, n


def decodes(sc):
    return script_ops(sc)[1] == len(sc)


def strip_codeseparators(sc):
    """FindAndDelete(scriptCode, OP_CODESEPARATOR): every OP_CODESEPARATOR instruction removed, an undecodable tail kept"""
    ops, stop = script_ops(sc)
    return b"".join(sc[a:b] for (op, a, b) in ops if op != 0xab) + sc[stop:]


def legacy_digest(tx, nin, sc, ht):
    base = ht & 0x1f
    if base == 3 and nin >= len(tx.vout):
        return b"\x01" + b"\x00" * 31
    sub = strip_codeseparators(sc)
    vin = []
    for k, (h, n, _ss, seq, _w) in enumerate(tx.vin):
        vin.append((h, n, sub if k == nin else b"", seq if (k == nin or base not in (2, 3)) else 0, []))
    if ht & 0x80:
        vin = [vin[nin]]
    if base == 2:
        vout = []
    elif base == 3:
        vout = [(-1, b"")] * nin + [tx.vout[nin]]
    else:
        vout = list(tx.vout)
    return dsha(Tx(tx.version, vin, vout, tx.locktime).ser(False) + le32(ht))


def bip143_digest(tx, nin, sc, ht, amount):
    base = ht & 0x1f
    acp = bool(ht & 0x80)
    z = b"\x00" * 32
    hp = z if acp else dsha(b"".join(i[0] + le32(i[1]) for i in tx.vin))
    hs = z if (acp or base in (2, 3)) else dsha(b"".join(le32(i[3]) for i in tx.vin))
    if base not in (2, 3):
        ho = dsha(b"".join(ser_out(o) for o in tx.vout))
    elif base == 3 and nin < len(tx.vout):
        ho = dsha(ser_out(tx.vout[nin]))
    else:
        ho = z
    i = tx.vin[nin]
    return dsha((tx.version & 0xffffffff).to_bytes(4, "little") + hp + hs + i[0] + le32(i[1]) + cs(len(sc)) + sc + le64s(amount)
                + le32(i[3]) + ho + le32(tx.locktime) + le32(ht))


def tagged(tag, msg):
    t = sha(tag.encode())
    return sha(t + t + msg)


def bip341_digest(tx, nin, ht, spent, annex, ext):
    """None when BIP341 defines no message (undefined hash type, SINGLE without a corresponding output).
    ext = None (key path) or (leaf_hash, codesep_pos)."""
    if ht not in (0, 1, 2, 3, 0x81, 0x82, 0x83):
        return None
    out = ht & 3
    acp = bool(ht & 0x80)
    m = bytes([ht]) + (tx.version & 0xffffffff).to_bytes(4, "little") + le32(tx.locktime)
    if not acp:
        m += sha(b"".join(i[0] + le32(i[1]) for i in tx.vin))
        m += sha(b"".join(le64s(o[0]) for o in spent))
        m += sha(b"".join(cs(len(o[1])) + o[1] for o in spent))
        m += sha(b"".join(le32(i[3]) for i in tx.vin))
    if out not in (2, 3):
        m += sha(b"".join(ser_out(o) for o in tx.vout))
    m += bytes([(2 if ext is not None else 0) + (1 if annex is not None else 0)])
    if acp:
        i = tx.vin[nin]
        m += i[0] + le32(i[1]) + ser_out(spent[nin]) + le32(i[3])
    else:
        m += le32(nin)
    if annex is not None:
        m += sha(cs(len(annex)) + annex)
    if out == 3:
        if nin >= len(tx.vout):
            return None
        m += sha(ser_out(tx.vout[nin]))
    if ext is not None:
        m += ext[0] + b"\x00" + le32(ext[1])
    return tagged("TapSighash", b"\x00" + m)


# --------------------------------------------------------------------------------------------- secp256k1 (signer for the test vectors)

P = 2 ** 256 - 2 ** 32 - 977
N = 0xFFFFFFFFFFFFFFFFFFFFFFFFFFFFFFFEBAAEDCE6AF48A03BBFD25E8CD0364141
G = (0x79BE667EF9DCBBAC55A06295CE870B07029BFCDB2DCE28D959F2815B16F81798, 0x483ADA7726A3C4655DA4FBFC0E1108A8FD17B448A68554199C47D08FFB10D4B8)


def padd(a, b):
    if a is None:
        return b
    if b is None:
        return a
    if a[0] == b[0]:
        if (a[1] + b[1]) % P == 0:
            return None
        lam = 3 * a[0] * a[0] * pow(2 * a[1], -1, P) % P
    else:
        lam = (b[1] - a[1]) * pow(b[0] - a[0], -1, P) % P
    x = (lam * lam - a[0] - b[0]) % P
    return (x, (lam * (a[0] - x) - a[1]) % P)


def pmul(k, p):
    r = None
    while k:
        if k & 1:
            r = padd(r, p)
        p = padd(p, p)
        k >>= 1
    return r


def pub_compressed(sk):
    x, y = pmul(sk, G)
    return bytes([2 + (y & 1)]) + x.to_bytes(32, "big")


def pub_uncompressed(sk):
    x, y = pmul(sk, G)
    return b"\x04" + x.to_bytes(32, "big") + y.to_bytes(32, "big")


def pub_xonly(sk):
    return pmul(sk, G)[0].to_bytes(32, "big")


def der_int(v):
    b = v.to_bytes((v.bit_length() + 8) // 8 or 1, "big")
    return b"\x02" + bytes([len(b)]) + b


def ecdsa_sign(sk, digest, k, low_s=True):
    z = int.from_bytes(digest, "big")
    r = pmul(k, G)[0] % N
    s = pow(k, -1, N) * (z + r * sk) % N
    if low_s and s > N // 2:
        s = N - s
    body = der_int(r) + der_int(s)
    return b"\x30" + bytes([len(body)]) + body


def schnorr_sign(sk, msg, aux=b"\x00" * 32):
    d0 = sk
    px, py = pmul(d0, G)
    d = d0 if py % 2 == 0 else N - d0
    t = (d ^ int.from_bytes(tagged("BIP0340/aux", aux), "big")).to_bytes(32, "big")
    k0 = int.from_bytes(tagged("BIP0340/nonce", t + px.to_bytes(32, "big") + msg), "big") % N
    rx, ry = pmul(k0, G)
    k = k0 if ry % 2 == 0 else N - k0
    e = int.from_bytes(tagged("BIP0340/challenge", rx.to_bytes(32, "big") + px.to_bytes(32, "big") + msg), "big") % N
    return rx.to_bytes(32, "big") + ((k + e * d) % N).to_bytes(32, "big")


# --------------------------------------------------------------------------------------------- generators


def rbytes(rnd, n):
    return bytes(rnd.randrange(256) for _ in range(n))


def push(d):
    n = len(d)
    if n < 0x4c:
        return bytes([n]) + d
    if n <= 0xff:
        return bytes([0x4c, n]) + d
    return bytes([0x4d]) + n.to_bytes(2, "little") + d


def rand_script_code(rnd, malformed=False):
    """script codes with OP_CODESEPARATOR (0xab) as an instruction and inside push data, in every position"""
    parts = []
    for _ in range(rnd.choice((0, 1, 2, 3, 5, 8))):
        c = rnd.randrange(10)
        if c == 0:
            parts.append(b"\xab")
        elif c == 1:
            parts.append(push(b"\xab" * rnd.choice((1, 2, 5))))
        elif c == 2:
            parts.append(push(rbytes(rnd, rnd.choice((1, 20, 32, 33, 75, 76, 80)))))
        elif c == 3:
            parts.append(bytes([0x4c, 3]) + b"\xab\x01\xab")
        elif c == 4:
            parts.append(bytes([0x4d, 2, 0]) + b"\xab\xab")
        elif c == 5:
            parts.append(bytes([0x4e, 1, 0, 0, 0]) + b"\xab")
        elif c == 6:
            parts.append(b"\x00")
        else:
            parts.append(bytes([rnd.choice((0x51, 0x76, 0xa9, 0x87, 0x88, 0xac, 0xad, 0xae, 0xba, 0x63, 0x68, 0xff, 0xab))]))
    sc = b"".join(parts)
    if malformed:
        sc += rnd.choice((b"\x05\x01\x02", b"\x4c", b"\x4c\x05\xab", b"\x4d\x05", b"\x4d\x05\x00\xab\xab", b"\x4e\x01\x00\x00",
                          b"\x4e\xff\xff\xff\xff\xab", b"\x02\xab", b"\xab\x4b", b"\x4d\xab"))
    return sc


def rand_spk(rnd, taproot=None):
    if taproot is None:
        taproot = rnd.random() < 0.4
    if taproot:
        return b"\x51\x20" + rbytes(rnd, 32)
    return rnd.choice((b"", b"\x00\x14" + rbytes(rnd, 20), b"\x00\x20" + rbytes(rnd, 32), b"\x76\xa9\x14" + rbytes(rnd, 20) + b"\x88\xac",
                       b"\x51\x21" + rbytes(rnd, 33), b"\x52\x20" + rbytes(rnd, 32), b"\x51\x20" + rbytes(rnd, 31), rbytes(rnd, 34)))


AMOUNTS = (0, 1, 546, 100000, 2099999997690000, (1 << 63) - 1)


def rand_tx(rnd, nin=None, nout=None, witness=None):
    nin = nin or rnd.choice((1, 1, 2, 3, 4))
    nout = rnd.choice((0, 1, 1, 2, 3, 4)) if nout is None else nout
    wmode = witness or rnd.choice(("none", "all", "mixed", "mixed"))
    vin = []
    for _ in range(nin):
        w = []
        if wmode == "all" or (wmode == "mixed" and rnd.random() < 0.5):
            w = [rbytes(rnd, rnd.choice((0, 1, 32, 64, 65))) for _ in range(rnd.choice((1, 2, 3)))]
        vin.append((rbytes(rnd, 32), rnd.choice((0, 1, 2, 0xffffffff, rnd.randrange(1 << 32))), rbytes(rnd, rnd.choice((0, 0, 1, 23, 107))),
                    rnd.choice((0, 1, 0x3fffff, 0x400000, 0x40ffff, 0x80000000, 0xfffffffe, 0xffffffff, rnd.randrange(1 << 32))), w))
    vout = [(rnd.choice(AMOUNTS + (-1, -(1 << 63), rnd.randrange(1 << 50))), rand_spk(rnd)) for _ in range(nout)]
    ver = rnd.choice((1, 2, 2, 3, -1, 0, 0x7fffffff, -0x80000000, rnd.randrange(-(1 << 31), 1 << 31)))
    lock = rnd.choice((0, 1, 499999999, 500000000, 500000001, 0xffffffff, rnd.randrange(1 << 32)))
    return Tx(ver, vin, vout, lock)


def spent_str(spent):
    return ",".join(f"{v}:{spk.hex()}" for v, spk in spent) if spent else "-"


def hx(b):
    return b.hex() if b else "-"


def sighash_line(kind, tx, nin, ht, amount=0, sc=b"", spent=(), init="N", annex=None, codesep=0xffffffff, leaf=None, edflags=3, sv=0):
    return " ".join(["SIGHASH", kind, tx.hex(), str(nin), str(ht), str(amount), hx(sc), spent_str(spent), init,
                     annex.hex() if annex is not None else "-", str(codesep), leaf.hex() if leaf is not None else "-", str(edflags), str(sv)])


def checksig_line(which, tx, nin, amount, spent, init, sv, sig, key, sc=b"", annex=None, codesep=0xffffffff, leaf=None, edflags=3):
    return " ".join(["CHECKSIGTX", which, tx.hex(), str(nin), str(amount), spent_str(spent), init, str(sv), hx(sig), hx(key), hx(sc),
                     annex.hex() if annex is not None else "-", str(codesep), leaf.hex() if leaf is not None else "-", str(edflags)])


def rand_spent(rnd, tx, taproot_bias=0.5):
    return [(rnd.choice(AMOUNTS + (rnd.randrange(1 << 45),)), rand_spk(rnd, taproot=(rnd.random() < taproot_bias))) for _ in tx.vin]


def tap_ready(tx, spent, init):
    if init == "N" or not spent or len(spent) != len(tx.vin):
        return False
    return init == "I1" or any(i[4] and len(o[1]) == 34 and o[1][0] == 0x51 for i, o in zip(tx.vin, spent))


def gen_cases(seed, n):
    """n digest cases per kind: list of (line, expected digest from the Python implementation or None when outside its domain)"""
    rnd = random.Random(seed * 1000003 + 2)
    cases = []
    extra_ht = (0x100, 0x101, 0x183, 0x1ff, 0x7fffffff, 0x80000000, 0x80000003, 0xffffffff, 0xffffff83, 0x20, 0x21, 0x22, 0x23, 0xa3, 0x9f)
    # legacy and BIP143
    for k in range(n):
        tx = rand_tx(rnd)
        if k % 7 == 0 and len(tx.vin) > 1:
            tx.vout = tx.vout[:1]                                   # SIGHASH_SINGLE with index >= outputs
        nin = rnd.randrange(len(tx.vin))
        ht = k % 256 if k % 5 else rnd.choice(extra_ht + (3, 0x83, 2, 0x82))
        malformed = k % 11 == 10
        sc = rand_script_code(rnd, malformed)
        init = rnd.choice(("N", "I0", "I1"))
        spent = rand_spent(rnd, tx) if init != "N" and rnd.random() < 0.7 else []
        amount = rnd.choice(AMOUNTS + (-1, -(1 << 63), rnd.randrange(1 << 50)))
        cases.append((sighash_line("legacy", tx, nin, ht, amount, sc, spent, init, sv=rnd.choice((0, 0, 0, 2, 3))),
                      legacy_digest(tx, nin, sc, ht).hex() if decodes(sc) else None))
        cases.append((sighash_line("v0", tx, nin, ht, amount, sc, spent, init, sv=1), bip143_digest(tx, nin, sc, ht, amount).hex()))
        if k % 50 == 0:
            cases.append((sighash_line("legacy", tx, len(tx.vin), ht, amount, sc, spent, init, sv=0), None))      # assert(nIn < vin.size())
    # BIP341 / BIP342
    for k in range(n):
        tx = rand_tx(rnd)
        if k % 7 == 0 and len(tx.vin) > 1:
            tx.vout = tx.vout[:1]
        nin = rnd.randrange(len(tx.vin))
        ht = k % 256 if k % 3 else rnd.choice((0, 1, 2, 3, 0x81, 0x82, 0x83))
        sv = 3 if rnd.random() < 0.5 else 2
        annex = (b"\x50" + rbytes(rnd, rnd.choice((0, 1, 32, 300)))) if rnd.random() < 0.4 else None
        leaf = rbytes(rnd, 32) if sv == 3 else None
        codesep = rnd.choice((0xffffffff, 0, 1, 2, 255, 256, 65536, rnd.randrange(1 << 32)))
        init = rnd.choice(("I0", "I0", "I1", "I1", "I1", "N"))
        spent = rand_spent(rnd, tx, 0.7)
        edflags = 3
        r = k % 40
        if r == 1:
            spent = []                                              # BIP341 ready (force) but no spent outputs
        elif r == 2 and len(tx.vin) > 1:
            spent = spent[:-1]                                      # assert in Init
        elif r == 3:
            sv = rnd.choice((0, 1))                                 # assert(false) on the sigversion
        elif r == 4:
            leaf = None                                             # tapscript without tapleaf hash: assert (if reached)
        elif r == 5:
            edflags = rnd.choice((0, 1, 2))                         # annex / code separator position not initialised
        elif r == 6:
            nin = len(tx.vin)
        ext = (leaf, codesep) if sv == 3 and leaf is not None else None
        exp = None
        if nin < len(tx.vin) and tap_ready(tx, spent, init) and edflags == 3 and (sv == 2 or (sv == 3 and leaf is not None)):
            d = bip341_digest(tx, nin, ht % 256, spent, annex, ext)
            if d is None:
                exp = "FAIL oh=-"
            else:
                exp = d.hex() + " oh=" + (sha(ser_out(tx.vout[nin])).hex() if (ht % 256) & 3 == 3 else "-")
        cases.append((sighash_line("tap", tx, nin, ht, 0, b"", spent, init, annex, codesep, leaf, edflags, sv), exp))
    return cases


def gen_precomp(seed, n):
    rnd = random.Random(seed * 7919 + 5)
    lines = []
    for k in range(n):
        tx = rand_tx(rnd)
        spent = rand_spent(rnd, tx, rnd.choice((0.0, 0.5, 1.0)))
        if k % 5 == 0:
            spent = []
        elif k % 23 == 0:
            spent = spent + spent[:1]                               # size mismatch: assert
        lines.append(f"PRECOMP {tx.hex()} {spent_str(spent)} {k % 2}")
    return lines


def gen_checksig(seed, n):
    """signed inputs and their corruptions: (line, expected answer or None)"""
    rnd = random.Random(seed * 104729 + 11)
    out = []
    for k in range(n):
        tx = rand_tx(rnd)
        nin = rnd.randrange(len(tx.vin))
        sk = rnd.randrange(1, N)
        if k % 2 == 0:
            # ECDSA: legacy or BIP143
            sv = rnd.choice((0, 1))
            ht = rnd.choice((1, 2, 3, 0x81, 0x82, 0x83, 0, 4, 0x40, 0xff, rnd.randrange(256)))
            sc = rand_script_code(rnd) + b"\xac"
            amount = rnd.choice(AMOUNTS)
            key = pub_compressed(sk) if rnd.random() < 0.6 else pub_uncompressed(sk)
            digest = bip143_digest(tx, nin, sc, ht, amount) if sv == 1 else legacy_digest(tx, nin, sc, ht)
            sig = ecdsa_sign(sk, digest, rnd.randrange(1, N), low_s=rnd.random() < 0.7) + bytes([ht])
            init = rnd.choice(("N", "I1", "I0"))
            spent = rand_spent(rnd, tx) if init != "N" and rnd.random() < 0.5 else []
            out.append((checksig_line("E", tx, nin, amount, spent, init, sv, sig, key, sc), "1"))
            def dig(tx_, sc_, ht_, amount_, sv_):
                return bip143_digest(tx_, nin, sc_, ht_, amount_) if sv_ == 1 else legacy_digest(tx_, nin, sc_, ht_)

            def same(d2):
                # the signature stays valid exactly when the signed digest is unchanged (e.g. the SIGHASH_SINGLE "one" digest
                # does not depend on anything)
                return "1" if d2 == digest else "0"
            m = rnd.randrange(8)
            if m == 0:                                              # one bit of the signature
                b = bytearray(sig); b[rnd.randrange(4, len(b) - 1)] ^= 1 << rnd.randrange(8)
                out.append((checksig_line("E", tx, nin, amount, spent, init, sv, bytes(b), key, sc), None))
            elif m == 1:                                            # another hash type byte
                ht2 = ht ^ rnd.choice((1, 2, 0x80))
                out.append((checksig_line("E", tx, nin, amount, spent, init, sv, sig[:-1] + bytes([ht2]), key, sc), same(dig(tx, sc, ht2, amount, sv))))
            elif m == 2:                                            # another key
                out.append((checksig_line("E", tx, nin, amount, spent, init, sv, sig, pub_compressed(rnd.randrange(1, N)), sc), "0"))
            elif m == 3:                                            # a signed field changes: the amount (matters for BIP143 only)
                am2 = amount + 1 if amount < (1 << 62) else amount - 1
                out.append((checksig_line("E", tx, nin, am2, spent, init, sv, sig, key, sc), same(dig(tx, sc, ht, am2, sv))))
            elif m == 4:                                            # witness digest without the amount
                out.append((checksig_line("E", tx, nin, -1, spent, init, 1, sig, key, sc), "0"))
            elif m == 5:                                            # malformed keys and empty signature
                out.append((checksig_line("E", tx, nin, amount, spent, init, sv, sig, key[:-1], sc), "0"))
                out.append((checksig_line("E", tx, nin, amount, spent, init, sv, b"", key, sc), "0"))
                out.append((checksig_line("E", tx, nin, amount, spent, init, sv, sig, b"", sc), "0"))
            elif m == 6:                                            # code separator inserted into the script code: legacy digest ignores it
                sc2 = b"\xab" + sc
                out.append((checksig_line("E", tx, nin, amount, spent, init, sv, sig, key, sc2), same(dig(tx, sc2, ht, amount, sv))))
            else:                                                   # the lock time
                tx2 = Tx(tx.version, list(tx.vin), list(tx.vout), tx.locktime ^ 1)
                out.append((checksig_line("E", tx2, nin, amount, spent, init, sv, sig, key, sc), same(dig(tx2, sc, ht, amount, sv))))
        else:
            sv = rnd.choice((2, 3))
            ht = rnd.choice((0, 0, 1, 2, 3, 0x81, 0x82, 0x83))
            spent = rand_spent(rnd, tx, 0.7)
            annex = (b"\x50" + rbytes(rnd, rnd.choice((0, 7, 64)))) if rnd.random() < 0.4 else None
            leaf = rbytes(rnd, 32) if sv == 3 else None
            codesep = rnd.choice((0xffffffff, 0, 3, rnd.randrange(1 << 32)))
            ext = (leaf, codesep) if sv == 3 else None
            key = pub_xonly(sk)
            d = bip341_digest(tx, nin, ht, spent, annex, ext)
            if d is None:                                           # SINGLE without a matching output
                sig = rbytes(rnd, 64) + (bytes([ht]) if ht else b"")
                out.append((checksig_line("S", tx, nin, 0, spent, "I1", sv, sig, key, b"", annex, codesep, leaf), "ERR:45"))
                continue
            sig = schnorr_sign(sk, d, rbytes(rnd, 32)) + (bytes([ht]) if ht else b"")
            out.append((checksig_line("S", tx, nin, 0, spent, "I1", sv, sig, key, b"", annex, codesep, leaf), "1"))
            m = rnd.randrange(10)
            if m == 0:
                b = bytearray(sig); b[rnd.randrange(64)] ^= 1 << rnd.randrange(8)
                out.append((checksig_line("S", tx, nin, 0, spent, "I1", sv, bytes(b), key, b"", annex, codesep, leaf), "ERR:46"))
            elif m == 1:
                for s2 in (sig[:63], sig + b"\x01\x01", b"", sig[:64] + b"\x01\x01"):
                    if len(s2) not in (64, 65):
                        out.append((checksig_line("S", tx, nin, 0, spent, "I1", sv, s2, key, b"", annex, codesep, leaf), "ERR:44"))
            elif m == 2:                                            # explicit 0x00 hash type byte is refused; undefined hash types
                out.append((checksig_line("S", tx, nin, 0, spent, "I1", sv, sig[:64] + b"\x00", key, b"", annex, codesep, leaf), "ERR:45"))
                out.append((checksig_line("S", tx, nin, 0, spent, "I1", sv, sig[:64] + bytes([rnd.choice((4, 0x80, 0x84, 0xff, 0x41))]), key, b"", annex, codesep, leaf), "ERR:45"))
            elif m == 3:                                            # the annex is signed
                a2 = None if annex is not None else b"\x50"
                out.append((checksig_line("S", tx, nin, 0, spent, "I1", sv, sig, key, b"", a2, codesep, leaf), "ERR:46"))
            elif m == 4 and sv == 3:                                # the code separator position and the leaf are signed
                out.append((checksig_line("S", tx, nin, 0, spent, "I1", sv, sig, key, b"", annex, (codesep + 1) & 0xffffffff, leaf), "ERR:46"))
                out.append((checksig_line("S", tx, nin, 0, spent, "I1", sv, sig, key, b"", annex, codesep, rbytes(rnd, 32)), "ERR:46"))
            elif m == 5:                                            # key path digest is not the script path digest
                if sv == 3:
                    out.append((checksig_line("S", tx, nin, 0, spent, "I1", 2, sig, key, b"", annex, codesep, leaf), "ERR:46"))
                else:
                    out.append((checksig_line("S", tx, nin, 0, spent, "I1", 3, sig, key, b"", annex, codesep, rbytes(rnd, 32)), "ERR:46"))
            elif m == 6:                                            # spent amount / script are signed (not under ANYONECANPAY for other inputs)
                j = rnd.randrange(len(spent))
                sp2 = list(spent); sp2[j] = (sp2[j][0] + 1 if sp2[j][0] < (1 << 62) else sp2[j][0] - 1, sp2[j][1])
                exp = "1" if (ht & 0x80 and j != nin) else "ERR:46"
                out.append((checksig_line("S", tx, nin, 0, sp2, "I1", sv, sig, key, b"", annex, codesep, leaf), exp))
            elif m == 7:                                            # missing data: no Init / no spent outputs
                out.append((checksig_line("S", tx, nin, 0, [], "N", sv, sig, key, b"", annex, codesep, leaf), "ERR:45"))
                out.append((checksig_line("S", tx, nin, 0, [], "I1", sv, sig, key, b"", annex, codesep, leaf), "ERR:45"))
            elif m == 8:                                            # wrong key sizes throw
                out.append((checksig_line("S", tx, nin, 0, spent, "I1", sv, sig, key[:31], b"", annex, codesep, leaf), None))
                out.append((checksig_line("S", tx, nin, 0, spent, "I1", sv, sig, pub_compressed(sk), b"", annex, codesep, leaf), None))
            else:                                                   # another key
                out.append((checksig_line("S", tx, nin, 0, spent, "I1", sv, sig, pub_xonly(rnd.randrange(1, N)), b"", annex, codesep, leaf), "ERR:46"))
    return out


def gen_checklock(seed, n):
    rnd = random.Random(seed * 31337 + 17)
    vals = (0, 1, 499999999, 500000000, 500000001, 0xffff, 0x10000, 0x3fffff, 0x400000, 0x400001, 0x40ffff, 0x410000, 0x7fffffff,
            0x80000000, 0xffffffff, 0x100000000, 0x7fffffffff, -1, -0x400000, -(1 << 39) + 1)
    lines = []
    for _ in range(n):
        tx = rand_tx(rnd)
        nin = rnd.randrange(len(tx.vin))
        for w in "LS":
            v = rnd.choice(vals + (rnd.randrange(1 << 32), tx.locktime, tx.vin[nin][3], tx.vin[nin][3] & 0x40ffff, (tx.vin[nin][3] & 0x40ffff) + 1,
                                   tx.locktime + 1, max(0, tx.locktime - 1)))
            lines.append(f"CHECKLOCK {w} {tx.hex()} {nin} {v}")
    return lines


def gen_insttxdata(seed, n):
    """funding / spending pairs: (line, number of inputs, kind)"""
    rnd = random.Random(seed * 65537 + 23)
    out = []
    for k in range(n):
        kind = rnd.choice(("p2tr-key", "p2tr-key", "p2tr-key-annex", "p2tr-script", "p2wpkh"))
        if kind.startswith("p2tr"):
            spk = b"\x51\x20" + pub_xonly(rnd.randrange(1, N))
        else:
            spk = b"\x00\x14" + rbytes(rnd, 20)                   # replaced below by the hash of the revealed key
        fund = Tx(2, [(rbytes(rnd, 32), 0, b"", 0xffffffff, [])], [(1000, b"\x51"), (rnd.choice(AMOUNTS[1:]), spk)], 0)
        nin = (1, 2, 1, 3, 1, 4)[k % 6]
        pos = rnd.randrange(nin)
        vin = []
        for j in range(nin):
            if j == pos:
                if kind == "p2tr-key":
                    w = [rbytes(rnd, 64)]
                elif kind == "p2tr-key-annex":
                    w = [rbytes(rnd, 64), b"\x50" + rbytes(rnd, 5)]
                elif kind == "p2tr-script":
                    w = [rbytes(rnd, 64), b"\x20" + rbytes(rnd, 32) + b"\xac", b"\xc0" + rbytes(rnd, 32)]
                else:
                    pk = pub_compressed(rnd.randrange(1, N))
                    w = [rbytes(rnd, 71), pk]
                vin.append((fund.txid(), 1, b"", 0xfffffffd, w))
            else:
                vin.append((rbytes(rnd, 32), rnd.randrange(4), b"", 0xffffffff, [rbytes(rnd, 64)] if rnd.random() < 0.5 else []))
        if kind == "p2wpkh":
            # the witness program must be the hash of the revealed key for configure_tx_txin to accept the pair
            pk = vin[pos][4][1]
            h160 = ripemd160(sha(pk))
            fund.vout[1] = (fund.vout[1][0], b"\x00\x14" + h160)
            vin[pos] = (fund.txid(), 1, b"", 0xfffffffd, vin[pos][4])
        spend = Tx(2, vin, [(500, b"\x51")], 0)
        exp = None
        if nin == 1 and kind.startswith("p2tr"):
            w = vin[0][4]
            annex = w[-1] if kind == "p2tr-key-annex" else None
            ext = None
            if kind == "p2tr-script":
                script, control = w[-2], w[-1]
                ext = (tagged("TapLeaf", bytes([control[0] & 0xfe]) + cs(len(script)) + script), 0xffffffff)
            exp = bip341_digest(spend, 0, 0, [fund.vout[1]], annex, ext).hex()
        out.append((f"INSTTXDATA {spend.hex()} {fund.hex()}", nin, kind, exp))
    return out


def ripemd160(b):
    try:
        return hashlib.new("ripemd160", b).digest()
    except ValueError:
        return _ripemd160(b)


def _ripemd160(msg):
    # pure-Python fallback (OpenSSL 3 may ship without the legacy provider)
    def rol(x, n):
        return ((x << n) | (x >> (32 - n))) & 0xffffffff
    r1 = [0, 1, 2, 3, 4, 5, 6, 7, 8, 9, 10, 11, 12, 13, 14, 15, 7, 4, 13, 1, 10, 6, 15, 3, 12, 0, 9, 5, 2, 14, 11, 8, 3, 10, 14, 4, 9, 15, 8, 1, 2, 7, 0, 6, 13, 11, 5, 12,
          1, 9, 11, 10, 0, 8, 12, 4, 13, 3, 7, 15, 14, 5, 6, 2, 4, 0, 5, 9, 7, 12, 2, 10, 14, 1, 3, 8, 11, 6, 15, 13]
    r2 = [5, 14, 7, 0, 9, 2, 11, 4, 13, 6, 15, 8, 1, 10, 3, 12, 6, 11, 3, 7, 0, 13, 5, 10, 14, 15, 8, 12, 4, 9, 1, 2, 15, 5, 1, 3, 7, 14, 6, 9, 11, 8, 12, 2, 10, 0, 4, 13,
          8, 6, 4, 1, 3, 11, 15, 0, 5, 12, 2, 13, 9, 7, 10, 14, 12, 15, 10, 4, 1, 5, 8, 7, 6, 2, 13, 14, 0, 3, 9, 11]
    s1 = [11, 14, 15, 12, 5, 8, 7, 9, 11, 13, 14, 15, 6, 7, 9, 8, 7, 6, 8, 13, 11, 9, 7, 15, 7, 12, 15, 9, 11, 7, 13, 12, 11, 13, 6, 7, 14, 9, 13, 15, 14, 8, 13, 6, 5, 12, 7, 5,
          11, 12, 14, 15, 14, 15, 9, 8, 9, 14, 5, 6, 8, 6, 5, 12, 9, 15, 5, 11, 6, 8, 13, 12, 5, 12, 13, 14, 11, 8, 5, 6]
    s2 = [8, 9, 9, 11, 13, 15, 15, 5, 7, 7, 8, 11, 14, 14, 12, 6, 9, 13, 15, 7, 12, 8, 9, 11, 7, 7, 12, 7, 6, 15, 13, 11, 9, 7, 15, 11, 8, 6, 6, 14, 12, 13, 5, 14, 13, 13, 7, 5,
          15, 5, 8, 11, 14, 14, 6, 14, 6, 9, 12, 9, 12, 5, 15, 8, 8, 5, 12, 9, 12, 5, 14, 6, 8, 13, 6, 5, 15, 13, 11, 11]
    k1 = [0, 0x5a827999, 0x6ed9eba1, 0x8f1bbcdc, 0xa953fd4e]
    k2 = [0x50a28be6, 0x5c4dd124, 0x6d703ef3, 0x7a6d76e9, 0]

    def f(j, x, y, z):
        if j < 16:
            return x ^ y ^ z
        if j < 32:
            return (x & y) | (~x & 0xffffffff & z)
        if j < 48:
            return (x | (~y & 0xffffffff)) ^ z
        if j < 64:
            return (x & z) | (y & (~z & 0xffffffff))
        return x ^ (y | (~z & 0xffffffff))
    h = [0x67452301, 0xefcdab89, 0x98badcfe, 0x10325476, 0xc3d2e1f0]
    ml = len(msg)
    msg = msg + b"\x80" + b"\x00" * ((55 - ml) % 64) + (8 * ml).to_bytes(8, "little")
    for off in range(0, len(msg), 64):
        x = [int.from_bytes(msg[off + 4 * i: off + 4 * i + 4], "little") for i in range(16)]
        a1, b1, c1, d1, e1 = h
        a2, b2, c2, d2, e2 = h
        for j in range(80):
            t = (rol((a1 + f(j, b1, c1, d1) + x[r1[j]] + k1[j // 16]) & 0xffffffff, s1[j]) + e1) & 0xffffffff
            a1, e1, d1, c1, b1 = e1, d1, rol(c1, 10), b1, t
            t = (rol((a2 + f(79 - j, b2, c2, d2) + x[r2[j]] + k2[j // 16]) & 0xffffffff, s2[j]) + e2) & 0xffffffff
            a2, e2, d2, c2, b2 = e2, d2, rol(c2, 10), b2, t
        t = (h[1] + c1 + d2) & 0xffffffff
        h = [t, (h[2] + d1 + e2) & 0xffffffff, (h[3] + e1 + a2) & 0xffffffff, (h[4] + a1 + b2) & 0xffffffff, (h[0] + b1 + c2) & 0xffffffff]
    return b"".join(v.to_bytes(4, "little") for v in h)


# --------------------------------------------------------------------------------------------- real-chain pairs shipped with the repository


def parse_tx(raw):
    pos = [0]

    def take(n):
        b = raw[pos[0]:pos[0] + n]
        pos[0] += n
        return b

    def csz():
        c = take(1)[0]
        if c < 253:
            return c
        return int.from_bytes(take({253: 2, 254: 4, 255: 8}[c]), "little")
    ver = int.from_bytes(take(4), "little", signed=True)
    n = csz()
    wit = False
    if n == 0:
        take(1)
        wit = True
        n = csz()
    vin = []
    for _ in range(n):
        h = take(32); idx = int.from_bytes(take(4), "little"); ss = take(csz()); seq = int.from_bytes(take(4), "little")
        vin.append([h, idx, ss, seq, []])
    vout = []
    for _ in range(csz()):
        v = int.from_bytes(take(8), "little", signed=True); spk = take(csz())
        vout.append((v, spk))
    if wit:
        for i in vin:
            i[4] = [take(csz()) for _ in range(csz())]
    lock = int.from_bytes(take(4), "little")
    return Tx(ver, [tuple(i) for i in vin], vout, lock)


def script_pushes(sc):
    return [sc[a + (1 if op < 0x4c else {0x4c: 2, 0x4d: 3, 0x4e: 5}[op]):b] for (op, a, b) in script_ops(sc)[0] if op <= 0x4e]


def gen_realchain(repo):
    """signatures found on the block chain must be accepted by the checker (and their corruption refused)"""
    import os
    d = os.path.join(repo, "doc/txs")
    out = []
    for name in ("p2pkh", "p2sh-p2wpkh", "p2tr"):
        try:
            tx = parse_tx(bytes.fromhex(open(os.path.join(d, name + "-tx")).read().strip()))
            fund = parse_tx(bytes.fromhex(open(os.path.join(d, name + "-in")).read().strip()))
        except (OSError, ValueError, IndexError):
            continue
        fid = fund.txid()
        for nin, i in enumerate(tx.vin):
            if i[0] != fid:
                continue
            o = fund.vout[i[1]]
            if name == "p2pkh":
                sig, key = script_pushes(i[2])[:2]
                args = ("E", tx, nin, o[0], [], "N", 0, sig, key, o[1])
            elif name == "p2sh-p2wpkh":
                sig, key = i[4][:2]
                args = ("E", tx, nin, o[0], [], "N", 1, sig, key, b"\x76\xa9\x14" + ripemd160(sha(key)) + b"\x88\xac")
            else:
                if len(tx.vin) != 1:
                    continue
                sig, key = i[4][0], o[1][2:]
                args = ("S", tx, nin, o[0], [o], "I0", 2, sig, key, b"")
            out.append((checksig_line(*args), "1"))
            bad = bytearray(sig); bad[10] ^= 4
            a2 = list(args); a2[7] = bytes(bad)
            out.append((checksig_line(*a2), "ERR:46" if args[0] == "S" else "0"))
            if args[0] == "E":
                a3 = list(args); a3[3] = o[0] + 1
                out.append((checksig_line(*a3), "0" if args[6] == 1 else "1"))
    return out


# --------------------------------------------------------------------------------------------- the check


def _three_way(ctx, stream, lines, expected=None, nontrivial=None):
    """implementation / model always; specification where it applies (spec answer other than N/A); Python where it has an answer"""
    impl = ctx.harness_sharded(lines)
    model = ctx.driver_sharded(lines, "model")
    spec = ctx.driver_sharded(lines, "spec")
    na = sum(1 for s in spec if s == "N/A")
    spec_eff = [m if s == "N/A" else s for s, m in zip(spec, model)]
    ctx.compare(stream, lines, impl, model, spec_eff, nontrivial=nontrivial or (lambda c, i: i not in ("bad-op", "bad-tx", "PRECONDITION")))
    ctx.notes.append({stream: {"cases": len(lines), "spec-not-applicable(impl-vs-model-only)": na}})
    bad = 0
    if expected is not None:
        npy = 0
        for l, i, e in zip(lines, impl, expected):
            if e is None:
                continue
            npy += 1
            if i != e:
                bad += 1
                if bad <= 3:
                    ctx.violation(l, {"stream": stream, "why": "implementation differs from the independent Python implementation of the BIP text",
                                      "impl": i, "python": e})
        ctx.count(stream + "-python-voice", npy)
    for l, i in zip(lines, impl):
        if i == "EXIT1" and stream == "instance-calc-sighash":
            continue      # Instance::calc_sighash refuses transactions that do not have exactly one input (diagnostic, exit 1); compared with the model above
        if i in ("bad-op", "bad-tx") or i.startswith(("HARNESS-EXC", "DIED", "UNCAUGHT", "CRASH", "EXIT")):
            ctx.violation(l, {"stream": stream, "why": "harness could not run the case", "impl": i}, suffix="no-failing-input-found")
            break
    return impl, model, spec


def run(ctx):
    quick = ctx.tier == "quick"
    n = 600 if quick else 12000
    cases = gen_cases(ctx.seed, n)
    lines = [c[0] for c in cases]
    impl, model, spec = _three_way(ctx, "sighash-digests", lines, [c[1] for c in cases])
    hts = {"legacy": set(), "v0": set(), "tap": set()}
    for l in lines:
        w = l.split(" ")
        hts[w[1]].add(int(w[4]) % 256)
    ctx.notes.append({"hash-type bytes covered": {k: len(v) for k, v in hts.items()},
                      "answers": {"ABORT": sum(1 for i in impl if i == "ABORT"), "FAIL": sum(1 for i in impl if i.startswith("FAIL")),
                                  "uint256::ONE": sum(1 for i in impl if i == "01" + "00" * 31)}})
    # the inherited serialisation quirk: a script code whose tail does not decode is written short (model mirrors it; the spec,
    # FindAndDelete(OP_CODESEPARATOR), keeps the tail).  Listed so that the region excluded by `legacySighash_eq_spec_partial` is exercised.
    rnd = random.Random(ctx.seed + 99)
    q = []
    for tail in (b"\x05\x01\x02", b"\x4c\x05\xab", b"\x4d\x05", b"\x4d\x05\x00\xab\xab", b"\x4e\x01\x00\x00", b"\x02\xab", b"\xab\x4b", b"\x4c", b"\x4d\xab"):
        tx = rand_tx(rnd)
        for pre in (b"", b"\xac", b"\xab\xac", b"\x01\xab\xab"):
            q.append(sighash_line("legacy", tx, 0, 1, 0, pre + tail, sv=0))
    _three_way(ctx, "sighash-undecodable-scriptcode", q)
    _three_way(ctx, "precomputed-data", gen_precomp(ctx.seed, 300 if quick else 6000))
    sig = gen_checksig(ctx.seed, 60 if quick else 1500)
    _three_way(ctx, "checker-signatures", [s[0] for s in sig], [s[1] for s in sig])
    import os
    real = gen_realchain(os.environ.get("VERIF_REPO", "/repo"))
    if real:
        _three_way(ctx, "checker-real-chain-signatures", [r[0] for r in real], [r[1] for r in real])
    _three_way(ctx, "checker-locktime", gen_checklock(ctx.seed, 300 if quick else 6000))
    inst = gen_insttxdata(ctx.seed, 40 if quick else 400)
    ilines = [x[0] for x in inst]
    iimpl, imodel, _ = _three_way(ctx, "instance-txdata", ilines)
    multi = [(x[0], i) for x, i in zip(inst, iimpl) if x[1] > 1 and x[2].startswith("p2tr") and "r341=0" in i]
    single_ok = [i for x, i in zip(inst, iimpl) if x[1] == 1 and x[2].startswith("p2tr") and "r341=1 rspent=1" in i]
    # Instance::calc_sighash (what `tap` signs): the digest of the funded output; aborts for several inputs / non-taproot
    clines = [x[0].replace("INSTTXDATA", "CALCSIGHASH", 1) for x in inst]
    cimpl, _, _ = _three_way(ctx, "instance-calc-sighash", clines, [x[3] for x in inst])
    ctx.notes.append({"instance-calc-sighash answers": {"digest": sum(1 for i in cimpl if len(i) == 64), "ABORT": sum(1 for i in cimpl if i == "ABORT")}})
    ctx.notes.append({"instance-txdata": {"taproot single-input ready": len(single_ok), "taproot multi-input NOT ready (btcdeb limitation)": len(multi),
                                          "example": multi[0][0][:400] if multi else None}})


def replay(ctx, case):
    print("impl :", ctx.harness([case])[0])
    print("model:", ctx.driver([case])[0])
    print("spec :", ctx.driver([case], "spec")[0])
