"""C05 — the stepwise taproot commitment check equals the BIP341 rule."""
import random
import re
from . import pyref as P
from . import spendgen as S
from . import runlib as R


def rb(rnd, n): return bytes(rnd.randrange(256) for _ in range(n))


def commitment(rnd, path_len, script=None, leaf_ver=0xc0, node_mode="random", on_curve=True):
    """(control, program, script, ks) built by the independent BIP341 code; program is None if the key is unusable"""
    script = rb(rnd, rnd.choice((0, 1, 34, 75, 76, 253, 600))) if script is None else script
    while True:
        x = rb(rnd, 32)
        if (P.lift_x(int.from_bytes(x, "big")) is not None) == on_curve:
            break
    k = P.tapleaf(leaf_ver, script)
    ks = [k]
    nodes = []
    for j in range(path_len):
        if node_mode == "random": e = rb(rnd, 32)
        elif node_mode == "equal": e = k
        else:
            # shares a prefix of n bytes with the running hash, then goes above / below / is an extreme
            n = rnd.choice((1, 4, 7, 8, 9, 16, 31))
            tail = rnd.choice((b"\xff", b"\x00"))
            e = k[:n] + tail * (32 - n)
        nodes.append(e)
        k = P.tapbranch(k, e)
        ks.append(k)
    out = P.taproot_output(x, k)
    if out is None:
        return bytes([leaf_ver]) + x + b"".join(nodes), None, script, ks
    q, par = out
    return bytes([leaf_ver | par]) + x + b"".join(nodes), q, script, ks


def tce_line(control, program, script):
    return f"TCE {control.hex()} {program.hex()} {script.hex() or '-'}"


def corruptions(rnd, control, program, script):
    out = []
    def flip(b, pos):
        return b[:pos] + bytes([b[pos] ^ (1 << rnd.randrange(8))]) + b[pos + 1:]
    out.append(("parity", bytes([control[0] ^ 1]) + control[1:], program, script))
    out.append(("leaf-version", bytes([control[0] ^ (2 << rnd.randrange(7))]) + control[1:], program, script))
    out.append(("internal-key", flip(control, rnd.randrange(1, 33)), program, script))
    if len(control) > 33:
        out.append(("node", flip(control, rnd.randrange(33, len(control))), program, script))
        j = rnd.randrange((len(control) - 33) // 32)
        out.append(("node-dropped", control[:33 + 32 * j] + control[65 + 32 * j:], program, script))
        if len(control) > 65:
            a = control[33:65]; b = control[65:97]
            out.append(("nodes-swapped", control[:33] + b + a + control[97:], program, script))
    out.append(("node-added", control + rb(rnd, 32), program, script))
    out.append(("program", control, flip(program, rnd.randrange(32)), script))
    if script:
        out.append(("script", control, program, flip(script, rnd.randrange(len(script)))))
    out.append(("script-extended", control, program, script + b"\x51"))
    return out


def run(ctx):
    rnd = random.Random(ctx.seed * 5 + 5)
    quick = ctx.tier == "quick"
    lines, expect, chains, labels = [], [], [], []
    def add(label, control, program, script, ks=None):
        lines.append(tce_line(control, program, script))
        expect.append(P.bip341_check(control, script, program))
        chains.append(ks)
        labels.append(label)
    lens = list(range(0, 9)) + [16, 31, 32, 33, 64, 127, 128] + ([] if quick else list(range(9, 129)))
    for m in lens:
        for mode in ("random", "prefix", "equal"):
            for rep in range(2 if quick else 6):
                c, q, s, ks = commitment(rnd, m, node_mode=mode, leaf_ver=rnd.choice((0xc0, 0xc0, 0xc2, 0x00, 0xfe, rnd.randrange(128) * 2)))
                if q is None:
                    continue
                add(f"valid m={m} {mode}", c, q, s, ks)
                if m <= 8 or rep == 0:
                    for (lab, c2, q2, s2) in corruptions(rnd, c, q, s):
                        add(f"corrupt:{lab} m={m} {mode}", c2, q2, s2)
    # every leaf-version byte, both parities
    for v in range(0, 256, 2):
        c, q, s, ks = commitment(rnd, rnd.choice((0, 1, 2)), leaf_ver=v, script=b"\x51")
        if q is not None:
            add("leafver", c, q, s, ks)
            add("leafver-parity", bytes([c[0] ^ 1]) + c[1:], q, s)
    # internal key not on the curve / not a field element
    for rep in range(20):
        c, q, s, ks = commitment(rnd, rnd.choice((0, 1, 3)), on_curve=False)
        add("offcurve", c, rb(rnd, 32), s, ks)
    for x in (b"\xff" * 32, b"\x00" * 32, P.P.to_bytes(32, "big"), (P.P - 1).to_bytes(32, "big"), (P.P + 1).to_bytes(32, "big")):
        add("edge-key", b"\xc0" + x, rb(rnd, 32), b"\x51")
    # internal keys that are not field elements but reduce to the x coordinate of a curve point (p + x, x small): BIP341 rejects them (lift_x
    # fails for values >= p) although a program can be made that a reducing implementation would accept
    n_alias = 0
    xx = 1
    while n_alias < 8 and xx < 400:
        pt = P.lift_x(xx)
        if pt is not None and P.P + xx < (1 << 256):
            keyb = (P.P + xx).to_bytes(32, "big")
            for m_ in (0, 1):
                scr = b"\x51"
                kk = P.tapleaf(0xc0, scr); nodes = []
                for _ in range(m_):
                    e = rb(rnd, 32); nodes.append(e); kk = P.tapbranch(kk, e)
                t = int.from_bytes(P.tagged("TapTweak", keyb + kk), "big")
                if t < P.N:
                    Q = P.padd(pt, P.pmul(t, P.G))
                    if Q is not None:
                        add("alias-key", bytes([0xc0 | (Q[1] & 1)]) + keyb + b"".join(nodes), Q[0].to_bytes(32, "big"), scr)
            n_alias += 1
        xx += 1
    # control blocks whose length is not 33+32m (the environment is only built for lengths ≥ 33; the size rule itself is checked by the session set-up)
    for extra in (1, 31, 33):
        c, q, s, ks = commitment(rnd, 1)
        if q is not None:
            add("odd-length", c + b"\x00" * extra, q, s)
    impl = ctx.harness_sharded(lines)
    model = ctx.driver_sharded(lines, "model")
    spec = ctx.driver_sharded(lines, "spec")
    def obs(l):
        return l
    def odd(case, im, mo, sp):
        return None
    # the specification includes the size rule, the bare environment does not: compare those cases on impl/model only
    lines_ok = [i for i, lab in enumerate(labels) if lab != "odd-length"]
    ctx.compare("tce", [lines[i] for i in lines_ok], [impl[i] for i in lines_ok], [model[i] for i in lines_ok], [spec[i] for i in lines_ok])
    oddi = [i for i, lab in enumerate(labels) if lab == "odd-length"]
    ctx.compare("tce-odd-length", [lines[i] for i in oddi], [impl[i] for i in oddi], [model[i] for i in oddi], None)
    # the independent BIP341 implementation as a fourth voice: verdict, and every displayed hash
    hist = {}
    for i in lines_ok:
        m = re.search(r"ks=(\S+) steps=\d+ result=(\w+)", impl[i])
        if not m:
            ctx.violation(lines[i], {"stream": "tce-independent", "impl": impl[i], "why": "unparsable answer"})
            continue
        got = m.group(2) == "DONE"
        key = labels[i].split(" ")[0] + ("/accept" if got else "/reject")
        hist[key] = hist.get(key, 0) + 1
        if got != expect[i]:
            ctx.violation(lines[i], {"stream": "tce-independent", "impl": impl[i], "expected": "DONE" if expect[i] else "FAILED", "label": labels[i],
                                     "why": "the stepwise check disagrees with the independent BIP341 implementation"})
        if chains[i] is not None and labels[i].startswith(("valid", "leafver ", "leafver")) and not labels[i].endswith("parity"):
            want = ",".join(k.hex() for k in chains[i])
            if m.group(1) != want:
                ctx.violation(lines[i], {"stream": "tce-independent", "impl": impl[i], "expected_ks": want, "label": labels[i],
                                         "why": "a displayed intermediate hash is not the BIP341 value"})
        if labels[i].startswith("valid") and not got:
            ctx.violation(lines[i], {"stream": "tce-independent", "impl": impl[i], "label": labels[i], "why": "a commitment built by the independent implementation was rejected"})
    ctx.count("tce-independent", len(lines_ok))
    ctx.notes.append("tce verdict histogram (label/verdict): " + ", ".join(f"{k}={v}" for k, v in sorted(hist.items())))

    # ---- the session level: size rule, leaf hash handed to the signature digest, signature over it accepted
    sl, meta = [], []
    for rep in range(40 if quick else 400):
        s = S.build(rnd, "p2tr-script", {"path_len": rnd.choice((0, 1, 2, 3, 8))})
        sl.append(S.spend_line(s.tx, s.txin, R.STD)); meta.append(("valid", s))
        tx2, ftx2, lab = S.mutate(rnd, s)
        sl.append(S.spend_line(tx2, ftx2, R.STD)); meta.append((lab, s))
        # an invalid commitment, every way round: parity bit, path node, internal key, leaf script, output key
        ver, vin, vout, lock = s.tx
        w = list(vin[0][3]); has_annex = len(w) >= 2 and w[-1][:1] == b"\x50"
        ci = len(w) - (2 if has_annex else 1)
        ctrl = w[ci]
        which = rnd.randrange(4)
        if which == 0: w[ci] = bytes([ctrl[0] ^ 1]) + ctrl[1:]
        elif which == 1: pos = rnd.randrange(1, len(ctrl)); w[ci] = ctrl[:pos] + bytes([ctrl[pos] ^ (1 << rnd.randrange(8))]) + ctrl[pos + 1:]
        elif which == 2: w[ci - 1] = w[ci - 1] + b"\x61"
        if which < 3:
            tx3 = (ver, [(vin[0][0], vin[0][1], vin[0][2], w, vin[0][4])], vout, lock)
            sl.append(S.spend_line(tx3, s.txin, R.STD)); meta.append(("bad-commitment", s))
    for extra in (1, 31, 32 * 129 - 32 * 2):
        s = S.build(rnd, "p2tr-script", {"path_len": 2, "annex": False})
        ver, vin, vout, lock = s.tx
        w = list(vin[0][3]); w[-1] = w[-1] + b"\x00" * extra
        tx2 = (ver, [(vin[0][0], vin[0][1], vin[0][2], w, vin[0][4])], vout, lock)
        sl.append(S.spend_line(tx2, s.txin, R.STD)); meta.append(("control-size", s))
    # leaves that Bitcoin never executes (OP_SUCCESSx), with the flag that discourages them on and off: the commitment is checked all the same
    NOSUCC = R.STD & ~(1 << R.FLAG_BITS["DISCOURAGE_OP_SUCCESS"])
    for leaf in (bytes([0x50]), bytes([0x51, 0x7e]), bytes([0x62, 0x51]), bytes([0x00, 0x63, 0x89, 0x68, 0x51])):
        for m in (0, 1, 3):
            for fl in (R.STD, NOSUCC, NOSUCC & ~(1 << R.FLAG_BITS["DISCOURAGE_UPGRADABLE_TAPROOT_VERSION"])):
                s = S.build(rnd, "p2tr-script", {"path_len": m, "leaf_script": leaf, "leaf_args": [], "annex": False})
                sl.append(S.spend_line(s.tx, s.txin, fl)); meta.append(("opsuccess-leaf", s))
                ver, vin, vout, lock = s.tx
                w = list(vin[0][3]); ctrl = w[-1]
                for w2 in ([*w[:-1], bytes([ctrl[0] ^ 1]) + ctrl[1:]], [*w[:-1], ctrl[:5] + bytes([ctrl[5] ^ 4]) + ctrl[6:]], [*w[:-2], w[-2] + b"\x61", ctrl]):
                    tx3 = (ver, [(vin[0][0], vin[0][1], vin[0][2], w2, vin[0][4])], vout, lock)
                    sl.append(S.spend_line(tx3, s.txin, fl)); meta.append(("bad-commitment", s))
    # SPENDR: as SPEND, and when a step fails the step is asked for twice more (a failed check stays failed)
    sl = [re.sub(r"^SPEND ", "SPENDR ", l) for l in sl]
    impl = ctx.harness_sharded(sl)
    model = ctx.driver_sharded(sl, "model")
    strip = lambda l: re.sub(r" verdict=\S+$", "", l)
    ctx.compare("tapscript-session", sl, impl, [strip(m) for m in model], None)
    for (lab, s), l, im in zip(meta, sl, impl):
        if lab == "valid" and s.valid and not re.search(r"end=OK final=01$", im):
            ctx.violation(l, {"stream": "tapscript-session", "impl": im, "why": "a tapscript spend built and signed by the independent implementation (leaf hash per BIP341) did not validate"})
        if lab == "bad-commitment" and ("end=OK" in im or re.search(r"retry=.*OK", im)):
            ctx.violation(l, {"stream": "tapscript-session", "impl": im, "why": "a session on an invalid script-path commitment went on past the commitment check"})
        if lab == "control-size" and im != "REFUSED:configure":
            ctx.violation(l, {"stream": "tapscript-session", "impl": im, "why": "control block of a size other than 33+32m (m<=128) was not refused"})
        if lab == "valid":
            m = re.search(r"TDONE:([0-9a-f]{64})", im) if "trace" in im else None
    interleaved_sessions(ctx, rnd)


def interleaved_sessions(ctx, rnd):
    """the real binary on a terminal: commands that are not steps (a bare `exec`, `exec` with operands, displays, `tf`) typed while the
    commitment check is pending do not replace it — an invalid commitment still ends in its error, a valid one is still checked"""
    import os, sys
    from concurrent.futures import ThreadPoolExecutor
    sys.path.insert(0, os.path.join(os.path.dirname(os.path.dirname(os.path.abspath(__file__))), "harness"))
    import ptyrun
    jobs = []
    interludes = (["exec"], ["exec", "exec"], ["exec OP_1", "exec OP_DROP"], ["stack", "altstack", "vfexec", "print"], ["tf echo 1"], ["help"], ["exec nosuchopcode"], ["rewind"], [])
    for m in (0, 1, 2):
        s = S.build(rnd, "p2tr-script", {"path_len": m, "leaf_script": b"\x51", "leaf_args": [], "annex": False})
        ver, vin, vout, lock = s.tx
        w = list(vin[0][3]); ctrl = w[-1]
        bad = [*w[:-1], ctrl[:1] + bytes([ctrl[1] ^ 1]) + ctrl[2:]]
        txb = (ver, [(vin[0][0], vin[0][1], vin[0][2], bad, vin[0][4])], vout, lock)
        for (label, tx) in (("valid", s.tx), ("invalid", txb)):
            for il in interludes:
                for at in (0, 1):
                    cmds = ["step"] * at + il + ["step"] * (m + 6)
                    jobs.append((label, m, il, at, ["--tx=" + P.ser_tx(tx).hex(), "--txin=" + P.ser_tx(s.txin).hex()], "\n".join(cmds) + "\n\x04"))
    def one(j):
        return ptyrun.run([os.path.join(ctx.bin, "btcdeb")] + j[4], "tty", "tty", j[5])
    with ThreadPoolExecutor(max_workers=16) as ex:
        res = list(ex.map(one, jobs))
    for (label, m, il, at, argv, inp), (rc, out, err) in zip(jobs, res):
        ctx.count("interleaved-sessions", 1)
        ctx.nontrivial.add("ils:%s:%d:%s:%d" % (label, m, "+".join(il), at))
        text = out + err
        mismatch = "Witness program hash mismatch" in text
        ended = "at end of script" in text
        if (label == "invalid" and (not mismatch or ended)) or (label == "valid" and (mismatch or not ended)) or rc != 0:
            ctx.violation("btcdeb %s ## commands=%r" % (" ".join(argv), inp), {"stream": "interleaved-sessions", "commitment": label, "path_len": m, "interlude": il, "after_steps": at,
                          "rc": rc, "saw_mismatch_error": mismatch, "reached_end": ended, "tail": text[-500:],
                          "why": "commands typed while the commitment check is pending changed its outcome"})


def replay(ctx, case):
    print("impl :", ctx.harness([case])[0])
    print("model:", ctx.driver([case])[0])
    if case.startswith("TCE"):
        print("spec :", ctx.driver([case], "spec")[0])
