// Gives the native harness in-process access to the static flag helpers of btcdeb.cpp
// without touching the source: the file is included with `main` renamed.
#define main btcdeb_main_renamed
#include "btcdeb.cpp"
#undef main

unsigned int hx_svf_parse_flags(unsigned int in_flags, const char* mod) { return svf_parse_flags(in_flags, mod); }
std::string hx_svf_string(uint32_t flags, const std::string& sep) { return svf_string(flags, sep); }
unsigned int hx_svf_get_flag(const std::string& s) { return svf_get_flag(s); }
size_t hx_svf_count() { return svf.size(); }
const char* hx_svf_name(size_t i) { return svf[i].str.c_str(); }
uint32_t hx_svf_id(size_t i) { return svf[i].id; }
unsigned int hx_standard_flags() { return STANDARD_SCRIPT_VERIFY_FLAGS; }
int hx_btcdeb_main(int argc, char* const* argv) { return btcdeb_main_renamed(argc, argv); }
