/* config/bitcoin-config.h.  Generated from bitcoin-config.h.in by configure.  */
/* config/bitcoin-config.h.in.  Generated from configure.ac by autoheader.  */

#ifndef BITCOIN_CONFIG_H

#define BITCOIN_CONFIG_H

/* Define if building universal (internal helper macro) */
/* #undef AC_APPLE_UNIVERSAL_BUILD */

/* Version Build */
#define CLIENT_VERSION_BUILD 0

/* Version is release */
#define CLIENT_VERSION_IS_RELEASE false

/* Major version */
#define CLIENT_VERSION_MAJOR 5

/* Minor version */
#define CLIENT_VERSION_MINOR 0

/* Build revision */
#define CLIENT_VERSION_REVISION 24

/* Copyright holder(s) before %s replacement */
#define COPYRIGHT_HOLDERS "The %s developers"

/* Copyright holder(s) */
#define COPYRIGHT_HOLDERS_FINAL "The Bitcoin Core developers"

/* Replacement for %s in copyright holders string */
#define COPYRIGHT_HOLDERS_SUBSTITUTION "Bitcoin Core"

/* Copyright year */
#define COPYRIGHT_YEAR 2023

/* Define to 1 to enable dangerous features */
/* #undef ENABLE_DANGEROUS */

/* Define to 1 if you have the <byteswap.h> header file. */
#define HAVE_BYTESWAP_H 1

/* define if the compiler supports basic C++17 syntax */
#define HAVE_CXX17 1

/* Define to 1 if you have the declaration of `be16toh', and to 0 if you
   don't. */
#define HAVE_DECL_BE16TOH 1

/* Define to 1 if you have the declaration of `be32toh', and to 0 if you
   don't. */
#define HAVE_DECL_BE32TOH 1

/* Define to 1 if you have the declaration of `be64toh', and to 0 if you
   don't. */
#define HAVE_DECL_BE64TOH 1

/* Define to 1 if you have the declaration of `bswap_16', and to 0 if you
   don't. */
#define HAVE_DECL_BSWAP_16 1

/* Define to 1 if you have the declaration of `bswap_32', and to 0 if you
   don't. */
#define HAVE_DECL_BSWAP_32 1

/* Define to 1 if you have the declaration of `bswap_64', and to 0 if you
   don't. */
#define HAVE_DECL_BSWAP_64 1

/* Define to 1 if you have the declaration of `daemon', and to 0 if you don't.
   */
#define HAVE_DECL_DAEMON 1

/* Define to 1 if you have the declaration of `htobe16', and to 0 if you
   don't. */
#define HAVE_DECL_HTOBE16 1

/* Define to 1 if you have the declaration of `htobe32', and to 0 if you
   don't. */
#define HAVE_DECL_HTOBE32 1

/* Define to 1 if you have the declaration of `htobe64', and to 0 if you
   don't. */
#define HAVE_DECL_HTOBE64 1

/* Define to 1 if you have the declaration of `htole16', and to 0 if you
   don't. */
#define HAVE_DECL_HTOLE16 1

/* Define to 1 if you have the declaration of `htole32', and to 0 if you
   don't. */
#define HAVE_DECL_HTOLE32 1

/* Define to 1 if you have the declaration of `htole64', and to 0 if you
   don't. */
#define HAVE_DECL_HTOLE64 1

/* Define to 1 if you have the declaration of `le16toh', and to 0 if you
   don't. */
#define HAVE_DECL_LE16TOH 1

/* Define to 1 if you have the declaration of `le32toh', and to 0 if you
   don't. */
#define HAVE_DECL_LE32TOH 1

/* Define to 1 if you have the declaration of `le64toh', and to 0 if you
   don't. */
#define HAVE_DECL_LE64TOH 1

/* Define to 1 if you have the declaration of `strerror_r', and to 0 if you
   don't. */
#define HAVE_DECL_STRERROR_R 1

/* Define to 1 if you have the declaration of `strnlen', and to 0 if you
   don't. */
#define HAVE_DECL_STRNLEN 1

/* Define to 1 if you have the declaration of `__builtin_clz', and to 0 if you
   don't. */
#define HAVE_DECL___BUILTIN_CLZ 1

/* Define to 1 if you have the declaration of `__builtin_clzl', and to 0 if
   you don't. */
#define HAVE_DECL___BUILTIN_CLZL 1

/* Define to 1 if you have the declaration of `__builtin_clzll', and to 0 if
   you don't. */
#define HAVE_DECL___BUILTIN_CLZLL 1

/* Define to 1 if you have the <dlfcn.h> header file. */
#define HAVE_DLFCN_H 1

/* Define to 1 if you have the <endian.h> header file. */
#define HAVE_ENDIAN_H 1

/* Define to 1 if the system has the `dllexport' function attribute */
/* #undef HAVE_FUNC_ATTRIBUTE_DLLEXPORT */

/* Define to 1 if the system has the `dllimport' function attribute */
/* #undef HAVE_FUNC_ATTRIBUTE_DLLIMPORT */

/* Define to 1 if the system has the `visibility' function attribute */
#define HAVE_FUNC_ATTRIBUTE_VISIBILITY 1

/* Define this symbol if the BSD getentropy system call is available */
#define HAVE_GETENTROPY 1

/* Define this symbol if the BSD getentropy system call is available with
   sys/random.h */
#define HAVE_GETENTROPY_RAND 1

/* Define to 1 if you have the <history.h> header file. */
/* #undef HAVE_HISTORY_H */

/* Define to 1 if you have the <inttypes.h> header file. */
#define HAVE_INTTYPES_H 1

/* Define to 1 if you have the `advapi32' library (-ladvapi32). */
/* #undef HAVE_LIBADVAPI32 */

/* Define to 1 if you have the `comctl32' library (-lcomctl32). */
/* #undef HAVE_LIBCOMCTL32 */

/* Define to 1 if you have the `comdlg32' library (-lcomdlg32). */
/* #undef HAVE_LIBCOMDLG32 */

/* Define to 1 if you have the `crypt32' library (-lcrypt32). */
/* #undef HAVE_LIBCRYPT32 */

/* Define to 1 if you have the `gdi32' library (-lgdi32). */
/* #undef HAVE_LIBGDI32 */

/* Define to 1 if you have the `iphlpapi' library (-liphlpapi). */
/* #undef HAVE_LIBIPHLPAPI */

/* Define to 1 if you have the `kernel32' library (-lkernel32). */
/* #undef HAVE_LIBKERNEL32 */

/* Define to 1 if you have the `mingwthrd' library (-lmingwthrd). */
/* #undef HAVE_LIBMINGWTHRD */

/* Define to 1 if you have the `mswsock' library (-lmswsock). */
/* #undef HAVE_LIBMSWSOCK */

/* Define to 1 if you have the `ole32' library (-lole32). */
/* #undef HAVE_LIBOLE32 */

/* Define to 1 if you have the `oleaut32' library (-loleaut32). */
/* #undef HAVE_LIBOLEAUT32 */

/* Define if you have a readline compatible library */
#define HAVE_LIBREADLINE 1

/* Define to 1 if you have the `rpcrt4' library (-lrpcrt4). */
/* #undef HAVE_LIBRPCRT4 */

/* Define to 1 if you have the `shell32' library (-lshell32). */
/* #undef HAVE_LIBSHELL32 */

/* Define to 1 if you have the `shlwapi' library (-lshlwapi). */
/* #undef HAVE_LIBSHLWAPI */

/* Define to 1 if you have the `user32' library (-luser32). */
/* #undef HAVE_LIBUSER32 */

/* Define to 1 if you have the `uuid' library (-luuid). */
/* #undef HAVE_LIBUUID */

/* Define to 1 if you have the `winmm' library (-lwinmm). */
/* #undef HAVE_LIBWINMM */

/* Define to 1 if you have the `winspool' library (-lwinspool). */
/* #undef HAVE_LIBWINSPOOL */

/* Define to 1 if you have the `ws2_32' library (-lws2_32). */
/* #undef HAVE_LIBWS2_32 */

/* Define to 1 if you have the <readline.h> header file. */
/* #undef HAVE_READLINE_H */

/* Define if your readline library has \`add_history' */
#define HAVE_READLINE_HISTORY 1

/* Define to 1 if you have the <readline/history.h> header file. */
#define HAVE_READLINE_HISTORY_H 1

/* Define to 1 if you have the <readline/readline.h> header file. */
#define HAVE_READLINE_READLINE_H 1

/* Define to 1 if you have the <stdint.h> header file. */
#define HAVE_STDINT_H 1

/* Define to 1 if you have the <stdio.h> header file. */
#define HAVE_STDIO_H 1

/* Define to 1 if you have the <stdlib.h> header file. */
#define HAVE_STDLIB_H 1

/* Define if you have `strerror_r'. */
#define HAVE_STRERROR_R 1

/* Define to 1 if you have the <strings.h> header file. */
#define HAVE_STRINGS_H 1

/* Define to 1 if you have the <string.h> header file. */
#define HAVE_STRING_H 1

/* Define this symbol if the BSD sysctl(KERN_ARND) is available */
/* #undef HAVE_SYSCTL_ARND */

/* Define to 1 if you have the <sys/endian.h> header file. */
/* #undef HAVE_SYS_ENDIAN_H */

/* Define this symbol if the Linux getrandom system call is available */
#define HAVE_SYS_GETRANDOM 1

/* Define to 1 if you have the <sys/prctl.h> header file. */
#define HAVE_SYS_PRCTL_H 1

/* Define to 1 if you have the <sys/select.h> header file. */
#define HAVE_SYS_SELECT_H 1

/* Define to 1 if you have the <sys/stat.h> header file. */
#define HAVE_SYS_STAT_H 1

/* Define to 1 if you have the <sys/types.h> header file. */
#define HAVE_SYS_TYPES_H 1

/* Define to 1 if you have the <unistd.h> header file. */
#define HAVE_UNISTD_H 1

/* Define if the visibility attribute is supported. */
#define HAVE_VISIBILITY_ATTRIBUTE 1

/* Define to the sub-directory where libtool stores uninstalled libraries. */
#define LT_OBJDIR ".libs/"

/* Define to the address where bug reports for this package should be sent. */
#define PACKAGE_BUGREPORT "https://github.com/bitcoin-core/btcdeb/issues"

/* Define to the full name of this package. */
#define PACKAGE_NAME "Bitcoin Debugger"

/* Define to the full name and version of this package. */
#define PACKAGE_STRING "Bitcoin Debugger 5.0.24"

/* Define to the one symbol short name of this package. */
#define PACKAGE_TARNAME "btcdeb"

/* Define to the home page for this package. */
#define PACKAGE_URL "https://twitter.com/kallewoof"

/* Define to the version of this package. */
#define PACKAGE_VERSION "5.0.24"

/* Define to 1 if all of the C90 standard headers exist (not just the ones
   required in a freestanding environment). This macro is provided for
   backward compatibility; new code need not use it. */
#define STDC_HEADERS 1

/* Define to 1 if strerror_r returns char *. */
#define STRERROR_R_CHAR_P 1

/* Define WORDS_BIGENDIAN to 1 if your processor stores words with the most
   significant byte first (like Motorola and SPARC, unlike Intel). */
#if defined AC_APPLE_UNIVERSAL_BUILD
# if defined __BIG_ENDIAN__
#  define WORDS_BIGENDIAN 1
# endif
#else
# ifndef WORDS_BIGENDIAN
/* #  undef WORDS_BIGENDIAN */
# endif
#endif

/* Number of bits in a file offset, on hosts where this is settable. */
/* #undef _FILE_OFFSET_BITS */

/* Define for large files, on AIX-style hosts. */
/* #undef _LARGE_FILES */

#endif //BITCOIN_CONFIG_H
