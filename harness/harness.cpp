// Native line-protocol twin of the Lean driver: one operation per input line, one canonical
// line per operation out.  Calls the real code of /repo in-process (objects rebuilt from the
// working tree by build.py).  No source change in /repo is needed.
#include <cstdio>
#include <cstring>
#include <string>
#include <vector>
#include <map>
#include <sstream>
#include <iostream>
#include <unistd.h>
#include <sys/wait.h>
#include <instance.h>
#include <functions.h>
#include <script/script_error.h>
#include <primitives/transaction.h>
#include "hx.h"

typedef std::vector<unsigned char> valtype;

static std::vector<std::string> split(const std::string& s, char sep = ' ') {
    std::vector<std::string> r; std::string cur;
    for (char c : s) { if (c == sep) { r.push_back(cur); cur.clear(); } else cur += c; }
    r.push_back(cur);
    return r;
}
static bool unhex(const std::string& s, valtype& out) {
    out.clear();
    if (s == "-") return true;
    if (s.size() & 1) return false;
    auto hv = [](char c) -> int { if (c >= '0' && c <= '9') return c - '0'; if (c >= 'a' && c <= 'f') return c - 'a' + 10; if (c >= 'A' && c <= 'F') return c - 'A' + 10; return -1; };
    for (size_t i = 0; i < s.size(); i += 2) { int a = hv(s[i]), b = hv(s[i+1]); if (a < 0 || b < 0) return false; out.push_back(a * 16 + b); }
    return true;
}
static std::string hex(const valtype& v) { return HexStr(v); }
static std::vector<valtype> unhex_list(const std::string& s) {
    std::vector<valtype> r;
    if (s == "-") return r;
    for (auto& p : split(s, ',')) { valtype v; unhex((p.empty() || p == "_") ? "-" : p, v); r.push_back(v); }
    return r;
}
static uint64_t fnv1a(uint64_t h, const std::string& s) {
    for (unsigned char c : s) { h ^= c; h *= 1099511628211ULL; }
    return h;
}
static const uint64_t FNV_INIT = 14695981039346656037ULL;

static std::string join_items(const std::vector<valtype>& st) {
    std::string s;
    for (size_t i = 0; i < st.size(); i++) { if (i) s += ","; s += hex(st[i]); }
    return s;
}
// conditional nesting as Bitcoin defines its observable content: depth and position of the first false level
// (levels above the first false one are unobservable by construction of ConditionStack)
static std::string cond_bits(const ConditionStack& c) {
    std::string s = std::to_string(c.size()) + ":";
    for (size_t i = 0; i < c.size(); i++) if (!c.at(i)) return s + std::to_string(i);
    return s + "-";
}
static std::string obs(const InterpreterEnv& env) {
    // stack | alt stack | condition nesting | counted ops : last executed code separator : signature budget left
    return join_items(env.stack) + "|" + join_items(env.altstack) + "|" + cond_bits(env.vfExec) + "|" +
        std::to_string(env.nOpCount) + ":" + std::to_string(env.execdata.m_codeseparator_pos) + ":" +
        (env.execdata.m_validation_weight_left_init ? std::to_string(env.execdata.m_validation_weight_left) : std::string("-"));
}
static std::string errname(ScriptError e) {
    return std::to_string((int)e);
}

// ---------------------------------------------------------------------------------------------
// SN <hex> <requireMinimal> <maxSize>
static std::string cmd_sn(const std::vector<std::string>& a) {
    valtype v; unhex(a[1], v);
    bool rm = a[2] == "1"; size_t mx = std::stoul(a[3]);
    try {
        CScriptNum n(v, rm, mx);
        std::ostringstream o;
        o << "ok " << n.GetInt64() << " " << n.getint() << " " << hex(n.getvch());
        return o.str();
    } catch (const scriptnum_error& e) {
        return std::string("err ") + (strstr(e.what(), "overflow") ? "overflow" : "nonminimal");
    }
}
// SNENC <int64>
static std::string cmd_snenc(const std::vector<std::string>& a) {
    int64_t n = std::stoll(a[1]);
    valtype v = CScriptNum::serialize(n);
    Value val(n);
    std::ostringstream o;
    o << hex(v) << " " << val.hex_str() << " " << hex(Value(n).data_value());
    // and back through Value(data).int_value when it fits the default 4 bytes
    if (v.size() <= 4) o << " " << Value(v).int_value(); else o << " -";
    return o.str();
}
// SNSWEEP <len> <lo> <hi> : all byte strings of length len whose little-endian index is in [lo,hi)
static std::string cmd_snsweep(const std::vector<std::string>& a) {
    size_t len = std::stoul(a[1]); uint64_t lo = std::stoull(a[2]), hi = std::stoull(a[3]);
    uint64_t h = FNV_INIT;
    valtype v(len);
    for (uint64_t k = lo; k < hi; k++) {
        for (size_t i = 0; i < len; i++) v[i] = (k >> (8 * i)) & 0xff;
        int64_t val = 0; int minimal = 1; valtype re;
        try { CScriptNum n(v, false, 8); val = n.GetInt64(); re = n.getvch(); } catch (...) { val = -999; }
        try { CScriptNum n(v, true, 8); } catch (...) { minimal = 0; }
        h ^= (uint64_t)val; h *= 1099511628211ULL;
        h ^= (uint64_t)minimal; h *= 1099511628211ULL;
        h ^= (uint64_t)(re == v ? 1 : 0); h *= 1099511628211ULL;
    }
    return std::to_string(h);
}

// ---------------------------------------------------------------------------------------------
// RUN <sigver> <flags> <z> <weight|-> <script-hex> <stack items>
struct RunCfg { int sigver; unsigned flags; bool z; bool has_w; int64_t w; valtype script; std::vector<valtype> stack; valtype succ; };

static bool setup(Instance& inst, const RunCfg& c, std::string& why) {
    inst.sigver = (SigVersion)c.sigver;
    if (!inst.parse_script(c.script)) { why = "REFUSED:invalid-script"; return false; }
    inst.stack = c.stack;
    inst.successor_script = CScript(c.succ.begin(), c.succ.end());
    if (c.has_w) {
        inst.execdata.m_validation_weight_left = c.w; inst.execdata.m_validation_weight_left_init = true;
        inst.execdata.m_annex_init = true; inst.execdata.m_annex_present = false;
        inst.execdata.m_tapleaf_hash_init = true;
    }
    inst.allow_disabled_opcodes = c.z;
    if (!inst.setup_environment(c.flags)) { why = "REFUSED:" + errname(inst.error); return false; }
    return true;
}

static std::string end_of(Instance& inst, bool ok) {
    if (ok) return "OK";
    if (inst.exception_string != "") return "EXC";
    return "ERR:" + errname(inst.error);
}

static RunCfg parse_cfg(const std::vector<std::string>& a) {
    RunCfg c;
    c.sigver = std::stoi(a[1]); c.flags = std::stoul(a[2]); c.z = a[3] == "1";
    c.has_w = a[4] != "-"; c.w = c.has_w ? std::stoll(a[4]) : 0;
    unhex(a[5], c.script); c.stack = unhex_list(a.size() > 6 ? a[6] : "-");
    if (a.size() > 7) unhex(a[7], c.succ);
    return c;
}

// complete per-step execution state, as the properties about sessions name it
static std::string full_state(Instance& inst) {
    InterpreterEnv& e = *inst.env;
    std::ostringstream o;
    o << obs(e) << "|cs=" << (e.pbegincodehash - e.script.begin()) << "|cp=" << e.execdata.m_codeseparator_pos
      << "|w=" << (e.execdata.m_validation_weight_left_init ? std::to_string(e.execdata.m_validation_weight_left) : std::string("-"))
      << "|ops=" << e.nOpCount << "|pc=" << (e.pc - e.script.begin()) << "|len=" << e.script.size()
      << "|seq=" << e.curr_op_seq << "|done=" << (e.done ? 1 : 0);
    return o.str();
}

// SESSION <cfg fields: sigver flags z w script stack succ> <commands: string over {s,r}>
// after every command: '+' accepted / '-' refused, then the hash of the full state; stops at a failing step ('!')
static std::string cmd_session(const std::vector<std::string>& a, bool verbose) {
    // SESSIONF: a failing step does not end the walk: it is marked '!', the (unchanged) state is hashed like any other, and the
    // commands that follow it are played (a user retries, rewinds, goes on)
    const bool lenient = a[0] == "SESSIONF";
    RunCfg c = parse_cfg(a);
    std::string cmds = a.size() > 8 ? a[8] : "";
    Instance inst; std::string why;
    if (!setup(inst, c, why)) return why;
    std::ostringstream o;
    uint64_t hh = FNV_INIT; std::string marks; std::string vt;
    for (char ch : cmds) {
        bool ok;
        if (ch == 's') {
            if (inst.at_end()) { ok = false; }       // fn_step: "at end of script"
            else {
                ok = inst.step();
                if (!ok) {
                    marks += '!';
                    if (!lenient) break;
                    std::string fs = full_state(inst);
                    char b[32]; snprintf(b, 32, "%016llx", (unsigned long long)fnv1a(FNV_INIT, fs));
                    hh = fnv1a(hh, b);
                    if (verbose) vt += " {" + fs + "}";
                    continue;
                }
            }
        } else {
            // fn_rewind: at_start -> refused; otherwise instance.rewind()
            ok = !inst.at_start() && inst.rewind();
        }
        marks += ok ? '+' : '-';
        std::string fs = full_state(inst);
        char b[32]; snprintf(b, 32, "%016llx", (unsigned long long)fnv1a(FNV_INIT, fs));
        hh = fnv1a(hh, b);
        if (verbose) vt += " {" + fs + "}";
    }
    char b[32]; snprintf(b, 32, "%016llx", (unsigned long long)hh);
    const bool failed = !lenient && !marks.empty() && marks.back() == '!';
    o << "marks=" << marks << " hs=" << b << " state=" << (failed ? std::string("-") : full_state(inst));
    // outcome of continuing to the end from here
    std::string r; bool ok = false;
    if (!failed) {
        try { ok = ContinueScript(*inst.env); r = ok ? "OK" : "ERR:" + errname(inst.error); }
        catch (const std::exception& ex) { r = "EXC"; }
        o << " cont=" << r << "/" << (ok ? obs(*inst.env) : std::string("-"));
    }
    if (verbose) o << " trace=" << vt;
    return o.str();
}

// SESSIONX <cfg: 7 fields> <cmds over s r x> <tok1,tok2,...>: a walk in which x is `exec tok1 tok2 ...` (valid tokens only);
// marks + accepted, - refused, ! failed; the full state is hashed after every command (a failure leaves the session in place)
static std::string cmd_sessionx(const std::vector<std::string>& a) {
    RunCfg c = parse_cfg(a);
    std::string cmds = a.size() > 8 ? a[8] : "";
    std::vector<std::string> toks = a.size() > 9 && a[9] != "-" ? split(a[9], ',') : std::vector<std::string>();
    Instance inst; std::string why;
    if (!setup(inst, c, why)) return why;
    uint64_t hh = FNV_INIT; std::string marks;
    for (char ch : cmds) {
        char m = '-';
        if (ch == 's') {
            if (!inst.at_end()) m = inst.step() ? '+' : '!';
        } else if (ch == 'r') {
            m = (!inst.at_start() && inst.rewind()) ? '+' : '-';
        } else {
            std::vector<char*> argv;
            for (auto& t : toks) argv.push_back(strdup(t.c_str()));
            bool ok = false;
            try { ok = argv.size() > 0 && inst.eval(argv.size(), argv.data()); } catch (const std::exception&) { ok = false; }
            for (auto p : argv) free(p);
            m = argv.empty() ? '-' : (ok ? '+' : '!');
        }
        marks += m;
        std::string fs = full_state(inst);
        char b[32]; snprintf(b, 32, "%016llx", (unsigned long long)fnv1a(FNV_INIT, fs));
        hh = fnv1a(hh, b);
    }
    char b[32]; snprintf(b, 32, "%016llx", (unsigned long long)hh);
    return "marks=" + marks + " hs=" + b + " state=" + full_state(inst);
}

// EXEC <cfg: sigver flags z w script stack succ> <nsteps> <tok1,tok2,...>
// session advanced by nsteps, then `exec tok1 tok2 ...` (Instance::eval as fn_exec calls it)
static std::string cmd_exec(const std::vector<std::string>& a) {
    RunCfg c = parse_cfg(a);
    size_t nsteps = std::stoul(a[8]);
    std::vector<std::string> toks = a.size() > 9 && a[9] != "-" ? split(a[9], ',') : std::vector<std::string>();
    Instance inst; std::string why;
    if (!setup(inst, c, why)) return why;
    // EXECF: a failing step of the prefix ends the prefix (the session stays where it was) and exec follows it
    const bool lenient = a[0] == "EXECF";
    for (size_t i = 0; i < nsteps; i++) { if (inst.at_end() || !inst.step()) { if (lenient) break; return "PREFIX-FAILED"; } }
    std::string before = full_state(inst);
    valtype script_before(inst.env->script.begin(), inst.env->script.end());
    std::vector<char*> argv;
    for (auto& t : toks) argv.push_back(strdup(t.c_str()));
    std::string r; bool ok = false;
    ScriptError before_err = inst.error;
    // Preset as EvalScript presets it.  The only failure that sets no error of its own is a Schnorr check refused by the
    // transaction-less checker (BaseSignatureChecker::CheckSchnorrSignature returns false and leaves serror alone): a tapscript
    // session without a transaction exists in this harness only, and there the answer is the preset UNKNOWN_ERROR, as in a step.
    inst.error = SCRIPT_ERR_UNKNOWN_ERROR;
    // capture what eval reports on stderr: it is the only place a refusal ("invalid opcode") and a caught exception differ
    char* ebuf = nullptr; size_t elen = 0;
    FILE* ems = open_memstream(&ebuf, &elen);
    FILE* saved_err = stderr;
    stderr = ems;
    try { ok = inst.eval(argv.size(), argv.data()); }
    catch (const std::exception& ex) { r = "UNCAUGHT"; }
    fflush(ems); stderr = saved_err; fclose(ems);
    std::string etext(ebuf ? ebuf : "", elen); free(ebuf);
    if (r.empty()) {
        if (ok) r = "OK";
        else if (toks.empty()) r = "FAIL:REFUSED";
        else if (etext.find("exception thrown") != std::string::npos) r = "FAIL:EXC";
        else if (etext.find("invalid opcode") != std::string::npos) r = "FAIL:REFUSED";
        else if (inst.error == SCRIPT_ERR_ERROR_COUNT) r = "FAIL:NOERR";
        else r = "FAIL:" + errname(inst.error);
    }
    for (auto p : argv) free(p);
    valtype script_after(inst.env->script.begin(), inst.env->script.end());
    std::ostringstream o;
    o << "before=" << before << " result=" << r << " after=" << (ok ? full_state(inst) : std::string("-")) << " script_same=" << (script_before == script_after ? 1 : 0);
    // after a failure: the session as the failed exec left it (operations before the failing one stay applied)
    if (!ok && r != "UNCAUGHT") o << " afterfail=" << full_state(inst);
    return o.str();
}

// run `fn` in a child process (the library code calls exit(1) on some inputs); returns its output or EXIT<n>/CRASH
#ifdef VERIF_COV
extern "C" void __gcov_dump(void);
#endif
template <typename F> static std::string in_child(F fn) {
    int fds[2];
    if (pipe(fds) != 0) return "HARNESS-EXC pipe";
    pid_t pid = fork();
    if (pid == 0) {
        close(fds[0]);
        std::string s;
        try { s = fn(); } catch (const std::exception& e) { s = std::string("UNCAUGHT ") + e.what(); }
        (void)!write(fds[1], s.c_str(), s.size());
#ifdef VERIF_COV
        __gcov_dump();
#endif
        _exit(0);
    }
    close(fds[1]);
    std::string got; char buf[65536]; ssize_t n;
    while ((n = read(fds[0], buf, sizeof buf)) > 0) got.append(buf, n);
    close(fds[0]);
    int status = 0; waitpid(pid, &status, 0);
    if (WIFSIGNALED(status)) return "CRASH sig=" + std::to_string(WTERMSIG(status));
    if (WEXITSTATUS(status) != 0) return "EXIT" + std::to_string(WEXITSTATUS(status));
    return got;
}

static std::vector<std::string> words_of(const std::vector<std::string>& a, size_t from) {
    std::vector<std::string> w;
    for (size_t i = from; i < a.size(); i++) { valtype raw; unhex(a[i].empty() ? "-" : a[i], raw); w.emplace_back(raw.begin(), raw.end()); }
    return w;
}

// BTCC <word1 hex> <word2 hex> ... : Value::serialize(Value::parse_args(argv)) as btcc's main does
static std::string cmd_btcc(const std::vector<std::string>& a) {
    std::vector<std::string> w = words_of(a, 1);
    return in_child([&]() {
        std::vector<const char*> args;
        for (auto& x : w) args.push_back(x.c_str());
        // btcc's main runs both calls inside try { } catch (std::exception const&) { message; return 1; }
        try {
            std::vector<Value> result = Value::parse_args(args);
            return "OK " + Value::serialize(result);
        } catch (std::exception const& ex) {
#ifdef VERIF_COV
            __gcov_dump();
#endif
            _exit(1);
        }
    });
}
static const char* vtype_name(const Value& v) {
    switch (v.type) { case Value::T_STRING: return "str"; case Value::T_INT: return "int"; case Value::T_DATA: return "data"; case Value::T_OPCODE: return "op"; }
    return "?";
}
// VALUE <text hex> : Value(text): type, data_value, hex_str, int_value
static std::string cmd_value(const std::vector<std::string>& a) {
    std::vector<std::string> w = words_of(a, 1);
    std::string text = w.empty() ? "" : w[0];
    return in_child([&]() {
        Value v(text.c_str());
        std::ostringstream o;
        o << "OK " << vtype_name(v) << " data=" << hex(v.data_value()) << " hex=" << v.hex_str();
        if (v.type != Value::T_STRING) o << " int=" << v.int_value();
        return o.str();
    });
}

CTransactionRef parse_tx(const char* p);   // instance.cpp

static std::string tx_line(const CTransaction& tx, size_t rest) {
    std::ostringstream o;
    o << "OK v=" << tx.nVersion << " lock=" << tx.nLockTime << " wit=" << (tx.HasWitness() ? 1 : 0) << " in=[";
    for (size_t i = 0; i < tx.vin.size(); i++) {
        const CTxIn& in = tx.vin[i];
        if (i) o << ";";
        o << HexStr(Span<const unsigned char>(in.prevout.hash.begin(), 32)) << ":" << in.prevout.n << ":" << HexStr(in.scriptSig) << ":" << in.nSequence << ":";
        if (in.scriptWitness.stack.empty()) o << "-";
        for (size_t k = 0; k < in.scriptWitness.stack.size(); k++) { if (k) o << "."; o << (in.scriptWitness.stack[k].empty() ? std::string("_") : hex(in.scriptWitness.stack[k])); }
    }
    o << "] out=[";
    for (size_t i = 0; i < tx.vout.size(); i++) { if (i) o << ";"; o << tx.vout[i].nValue << ":" << HexStr(tx.vout[i].scriptPubKey); }
    CDataStream w(SER_NETWORK, PROTOCOL_VERSION); w << tx;
    CDataStream nw(SER_NETWORK, PROTOCOL_VERSION | SERIALIZE_TRANSACTION_NO_WITNESS); nw << tx;
    uint256 h = tx.GetHash();
    valtype hv(h.begin(), h.end()); std::reverse(hv.begin(), hv.end());
    o << "] ser=" << HexStr(w) << " nowit=" << HexStr(nw) << " txid=" << hex(hv) << " rest=" << rest;
    return o.str();
}

// TXPARSE <hex of the text given to --tx/--txin> : parse_tx as the tools call it
static std::string cmd_txparse(const std::vector<std::string>& a) {
    valtype raw; unhex(a.size() > 1 ? a[1] : "-", raw);
    std::string text(raw.begin(), raw.end());
    try {
        CTransactionRef tx = parse_tx(text.c_str());
        if (!tx) return "ERR";
        return tx_line(*tx, 0);
    } catch (const std::exception& e) { return "ERR"; }
}
// AMOUNT <hex of the text>
static std::string cmd_amount(const std::vector<std::string>& a) {
    valtype raw; unhex(a.size() > 1 ? a[1] : "-", raw);
    std::string text(raw.begin(), raw.end());
    CAmount v;
    if (!ParseFixedPoint(text, 8, &v)) return "ERR";
    return "OK " + std::to_string(v);
}
// TXARG <hex of the --tx argument text> : Instance::parse_transaction(text, true)
static std::string cmd_txarg(const std::vector<std::string>& a) {
    valtype raw; unhex(a.size() > 1 ? a[1] : "-", raw);
    std::string text(raw.begin(), raw.end());
    Instance inst;
    try {
        if (!inst.parse_transaction(text.c_str(), true)) return "ERR";
    } catch (const std::exception& e) { return "ERR"; }
    std::ostringstream o;
    o << "OK amounts=";
    for (size_t i = 0; i < inst.amounts.size(); i++) { if (i) o << ","; o << inst.amounts[i]; }
    o << " " << tx_line(*inst.tx, 0);
    return o.str();
}

// TCE <control hex> <program hex> <script hex> : the stepwise taproot commitment check (TaprootCommitmentEnv)
static std::string cmd_tce(const std::vector<std::string>& a) {
    valtype control, program, script;
    unhex(a[1], control); unhex(a[2], program); unhex(a[3], script);
    if (control.size() < TAPROOT_CONTROL_BASE_SIZE || program.size() != 32) return "PRECONDITION";   // configure_tx_txin gates these before constructing the env
    uint256 leaf;
    CScript sc(script.begin(), script.end());
    TaprootCommitmentEnv tce(control, program, sc, &leaf);
    std::ostringstream o;
    o << "leaf=" << HexStr(Span<const unsigned char>(leaf.begin(), 32)) << " ks=" << HexStr(Span<const unsigned char>(tce.m_k.begin(), 32));
    int steps = 0; std::string res = "?";
    for (int guard = 0; guard < 200; guard++) {
        auto st = tce.Iterate();
        steps++;
        if (st == TaprootCommitmentEnv::State::Processing || st == TaprootCommitmentEnv::State::Tweaked) { o << "," << HexStr(Span<const unsigned char>(tce.m_k.begin(), 32)); continue; }
        res = st == TaprootCommitmentEnv::State::Done ? "DONE" : "FAILED";
        break;
    }
    o << " steps=" << steps << " result=" << res << " lines=" << tce.Description().size();
    return o.str();
}

// FLAGS <hex of the modification string> : svf_parse_flags(STANDARD, mod) in a child process (it calls exit(1) on rejection)
static std::string cmd_flags(const std::vector<std::string>& a) {
    valtype raw; unhex(a.size() > 1 ? a[1] : "-", raw);
    std::string mod(raw.begin(), raw.end());
    int fds[2];
    if (pipe(fds) != 0) return "HARNESS-EXC pipe";
    pid_t pid = fork();
    if (pid == 0) {
        close(fds[0]);
        unsigned int r = hx_svf_parse_flags(hx_standard_flags(), mod.c_str());
        std::string s = std::to_string(r) + " " + hx_svf_string(r, ",");
        (void)!write(fds[1], s.c_str(), s.size());
#ifdef VERIF_COV
        __gcov_dump();
#endif
        _exit(0);
    }
    close(fds[1]);
    std::string got; char buf[4096]; ssize_t n;
    while ((n = read(fds[0], buf, sizeof buf)) > 0) got.append(buf, n);
    close(fds[0]);
    int status = 0; waitpid(pid, &status, 0);
    if (WIFSIGNALED(status)) return "CRASH sig=" + std::to_string(WTERMSIG(status));
    if (WEXITSTATUS(status) == 1) return "REJECT";
    if (WEXITSTATUS(status) != 0) return "EXIT " + std::to_string(WEXITSTATUS(status));
    return "OK " + got;
}

static std::string cmd_run(const std::vector<std::string>& a, bool verbose) {
    RunCfg c = parse_cfg(a);
    std::ostringstream o;
    // 1. stepping
    {
        Instance inst; std::string why;
        if (!setup(inst, c, why)) { return why; }
        std::vector<std::string> hs; bool ok = true; size_t n = 0;
        std::string vtrace;
        while (!inst.at_end()) {
            ok = inst.step();
            if (!ok) break;
            n++;
            std::string ob = obs(*inst.env);
            char b[32]; snprintf(b, 32, "%016llx", (unsigned long long)fnv1a(FNV_INIT, ob));
            hs.push_back(b);
            if (verbose) vtrace += " {" + ob + "}";
        }
        o << "steps=" << n << " hs=";
        uint64_t hh = FNV_INIT; for (auto& h : hs) hh = fnv1a(hh, h);
        char b[32]; snprintf(b, 32, "%016llx", (unsigned long long)hh); o << b;
        o << " end=" << end_of(inst, ok) << " final=" << (ok ? obs(*inst.env) : std::string("-")) << " done=" << ((ok && inst.env->done) ? 1 : 0);
        if (verbose) o << " trace=" << vtrace;
    }
    // 2. run to completion (ContinueScript, as non-interactive btcdeb does, but guarded)
    {
        Instance inst; std::string why;
        setup(inst, c, why);
        std::string r;
        bool ok = false;
        try { ok = ContinueScript(*inst.env); r = ok ? "OK" : "ERR:" + errname(inst.error); }
        catch (const std::exception& e) { r = "EXC"; }
        o << " cont=" << r << "/" << (ok ? obs(*inst.env) : std::string("-"));
    }
    // (the tree's batch EvalScript/VerifyScript are dead code with uninitialised members; not used as a voice)
    return o.str();
}

// ---------------------------------------------------------------------------------------------
// ---------------------------------------------------------------------------------------------
// commands defined in harness/cmd_*.inc (one file per subsystem; each registers itself)
typedef std::string (*extra_cmd_fn)(const std::vector<std::string>&);
static std::map<std::string, extra_cmd_fn>& extra_cmds() { static std::map<std::string, extra_cmd_fn> m; return m; }
struct RegisterCmd { RegisterCmd(const char* name, extra_cmd_fn f) { extra_cmds()[name] = f; } };
#include "cmds_extra.h"

static std::string dispatch(const std::string& line) {
    auto a = split(line);
    if (a.empty() || a[0].empty()) return "";
    try {
        if (a[0] == "SN") return cmd_sn(a);
        if (a[0] == "SNENC") return cmd_snenc(a);
        if (a[0] == "SNSWEEP") return cmd_snsweep(a);
        if (a[0] == "RUN") return cmd_run(a, false);
        if (a[0] == "RUNV") return cmd_run(a, true);
        if (a[0] == "EXEC" || a[0] == "EXECF") return cmd_exec(a);
        if (a[0] == "SESSIONX") return cmd_sessionx(a);
        if (a[0] == "FLAGS") return cmd_flags(a);
        if (a[0] == "TCE") return cmd_tce(a);
        { auto it = extra_cmds().find(a[0]); if (it != extra_cmds().end()) return it->second(a); }
        if (a[0] == "TXPARSE") return cmd_txparse(a);
        if (a[0] == "BTCC") return cmd_btcc(a);
        if (a[0] == "VALUE") return cmd_value(a);
        if (a[0] == "AMOUNT") return cmd_amount(a);
        if (a[0] == "TXARG") return cmd_txarg(a);
        if (a[0] == "SESSION" || a[0] == "SESSIONF") return cmd_session(a, false);
        if (a[0] == "SESSIONV") return cmd_session(a, true);
    } catch (const std::exception& e) {
        return std::string("HARNESS-EXC ") + e.what();
    }
    return "bad-op";
}

int main(int argc, char** argv) {
    btc_logf = btc_logf_dummy;
    // stdout of the library code (hints printed with printf) must not pollute the protocol:
    // results go to a dup of the original stdout, fd 1 is pointed at /dev/null.
    int outfd = dup(1);
    FILE* out = fdopen(outfd, "w");
    setvbuf(out, nullptr, _IOLBF, 0);   // a crash must lose no answered line: the first unanswered line is the one that killed us
    freopen("/dev/null", "w", stdout);
    if (argc > 1 && !strcmp(argv[1], "--keep-stderr")) {} else freopen("/dev/null", "w", stderr);
    std::string line;
    while (std::getline(std::cin, line)) {
        std::string r = dispatch(line);
        fputs(r.c_str(), out); fputc('\n', out);
    }
    fflush(out);
    return 0;
}
