"""Run the real tools with pipes and/or pseudo-terminals as stdin/stdout."""
import os
import pty
import select
import signal
import subprocess
import time


def run(argv, stdin_mode="pipe", stdout_mode="pipe", input_text="", env=None, timeout=20):
    """stdin_mode/stdout_mode in {pipe, tty}. Returns (returncode, stdout_text, stderr_text); returncode < 0 = killed by signal."""
    e = dict(os.environ)
    e["TERM"] = "dumb"
    if env:
        e.update(env)
    m_in = s_in = m_out = s_out = None
    if stdin_mode == "tty":
        m_in, s_in = pty.openpty()
    if stdout_mode == "tty":
        m_out, s_out = pty.openpty()
    p = subprocess.Popen(argv, stdin=(s_in if s_in is not None else subprocess.PIPE),
                         stdout=(s_out if s_out is not None else subprocess.PIPE), stderr=subprocess.PIPE, env=e,
                         close_fds=True, start_new_session=True)
    if s_in is not None:
        os.close(s_in)
    if s_out is not None:
        os.close(s_out)
    out = b""
    try:
        pipe_input = (input_text if isinstance(input_text, bytes) else input_text.encode()) if stdin_mode == "pipe" else None
        if stdin_mode == "pipe" and stdout_mode == "tty":
            try:
                p.stdin.write(pipe_input)
                p.stdin.close()
            except BrokenPipeError:
                pass
            p.stdin = None
        elif stdin_mode == "tty" and input_text:
            os.write(m_in, input_text if isinstance(input_text, bytes) else input_text.encode())
        if stdout_mode == "tty":
            t0 = time.time()
            while True:
                r, _, _ = select.select([m_out], [], [], 0.05)
                if r:
                    try:
                        d = os.read(m_out, 65536)
                    except OSError:
                        d = b""
                    if d:
                        out += d
                        continue
                if p.poll() is not None:
                    # drain
                    try:
                        while True:
                            r, _, _ = select.select([m_out], [], [], 0.02)
                            if not r:
                                break
                            d = os.read(m_out, 65536)
                            if not d:
                                break
                            out += d
                    except OSError:
                        pass
                    break
                if time.time() - t0 > timeout:
                    os.killpg(p.pid, signal.SIGKILL)
                    break
            err = p.stderr.read()
            p.wait()
            out = out.replace(b"\r\n", b"\n")
        else:
            try:
                o, err = p.communicate(pipe_input, timeout=timeout)
            except subprocess.TimeoutExpired:
                os.killpg(p.pid, signal.SIGKILL)
                o, err = p.communicate()
            out = o
    finally:
        for fd in (m_in, m_out):
            if fd is not None:
                try:
                    os.close(fd)
                except OSError:
                    pass
    return p.returncode, out.decode("latin1"), err.decode("latin1")
