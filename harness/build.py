#!/usr/bin/env python3
"""Rebuild the implementation side from /repo's current working tree, out of tree.

build(variant) -> directory holding: harness dumper btcdeb btcc tap
Binaries are cached under /verif/build/<treehash>-<variant>/ ; the scratch object
directory lives under $TMPDIR or /var/tmp and is removed before returning.
"""
import fcntl
import hashlib
import os
import shutil
import subprocess
import sys
import tempfile
import time
from concurrent.futures import ThreadPoolExecutor

HERE = os.path.dirname(os.path.abspath(__file__))
VERIF = os.path.dirname(HERE)
REPO = os.environ.get("VERIF_REPO", "/repo")
BUILD_ROOT = os.path.join(VERIF, "build")

LIB_SRCS = """arith_uint256.cpp base58.cpp bech32.cpp consensus/merkle.cpp crypto/hmac_sha512.cpp
crypto/ripemd160.cpp crypto/sha1.cpp crypto/sha256.cpp crypto/sha512.cpp hash.cpp
primitives/transaction.cpp pubkey.cpp script/interpreter.cpp script/script.cpp
script/script_error.cpp support/cleanse.cpp support/lockedpool.cpp uint256.cpp
util/spanparsing.cpp util/strencodings.cpp value.cpp
debugger/hash.cpp debugger/interpreter.cpp debugger/script.cpp
instance.cpp functions.cpp""".split()
TOOL_SRCS = ["btcdeb.cpp", "tap.cpp", "btcc.cpp"]
SECP_SRCS = ["secp256k1/src/secp256k1.c", "secp256k1/src/precomputed_ecmult.c",
             "secp256k1/src/precomputed_ecmult_gen.c"]
SECP_DEFS = ["-DENABLE_MODULE_EXTRAKEYS=1", "-DENABLE_MODULE_SCHNORRSIG=1", "-DENABLE_MODULE_RECOVERY=1",
             "-DECMULT_WINDOW_SIZE=15", "-DECMULT_GEN_PREC_BITS=4"]
HARNESS_SRCS = ["harness.cpp", "hx_btcdeb.cpp"]
GUARD = "BTCDEB_VERIF"

VARIANTS = {
    "plain": ["-O1", "-g"],
    "asan": ["-O1", "-g", "-fsanitize=address,undefined", "-fno-sanitize-recover=all", "-fno-omit-frame-pointer"],
    "cov": ["-O0", "-g", "--coverage", "-DVERIF_COV"],
}


def tree_hash(variant):
    h = hashlib.sha256()
    h.update(variant.encode())
    h.update(repr(VARIANTS[variant]).encode())
    roots = [REPO]
    files = []
    for root in roots:
        for dp, dn, fn in os.walk(root):
            rel = os.path.relpath(dp, root)
            dn[:] = [d for d in dn if d not in (".git", "autom4te.cache", ".deps", ".libs", "doc", "test", "ci", "extras", "build-aux")
                     and not (rel.startswith("secp256k1") and d in ("build-aux", "doc", "sage", "examples", "ci", "contrib"))]
            for f in fn:
                if f.endswith((".cpp", ".h", ".c", ".hpp")):
                    files.append(os.path.join(dp, f))
    for f in sorted(files):
        h.update(os.path.relpath(f, REPO).encode())
        with open(f, "rb") as fh:
            h.update(hashlib.sha256(fh.read()).digest())
    for f in sorted(os.listdir(HERE)):
        if f.endswith((".cpp", ".h", ".py", ".inc", ".c")):
            with open(os.path.join(HERE, f), "rb") as fh:
                h.update(f.encode())
                h.update(hashlib.sha256(fh.read()).digest())
    return h.hexdigest()[:20]


def gen_enum_incs(d):
    """Enumerator names by regular expression over the headers; values come from the compiler."""
    import re
    os.makedirs(d, exist_ok=True)
    def names(path, pat):
        src = open(os.path.join(REPO, path)).read()
        src = re.sub(r"//[^\n]*", "", src)
        src = re.sub(r"/\*.*?\*/", "", src, flags=re.S)
        out = []
        for m in re.finditer(pat, src, flags=re.M):
            if m.group(1) not in out:
                out.append(m.group(1))
        return out
    opc = names("script/script.h", r"^\s*(OP_[A-Za-z0-9_]+)\s*(?:=[^,\n]*)?,")
    err = names("script/script_error.h", r"^\s*(SCRIPT_ERR_[A-Za-z0-9_]+)\s*(?:=[^,\n]*)?,?\s*$")
    flg = names("script/interpreter.h", r"^\s*(SCRIPT_VERIFY_[A-Za-z0-9_]+)\s*=")
    err = [e for e in err if e != "SCRIPT_ERR_LAST"]
    flg = [f for f in flg if f != "SCRIPT_VERIFY_END_MARKER"]
    open(os.path.join(d, "gen_opc.inc"), "w").write("".join(f"OPC({n})\n" for n in opc))
    open(os.path.join(d, "gen_err.inc"), "w").write("".join(f"ERR({n})\n" for n in err))
    open(os.path.join(d, "gen_flg.inc"), "w").write("".join(f"FLG({n})\n" for n in flg))


def run(cmd, cwd=None):
    p = subprocess.run(cmd, cwd=cwd, stdout=subprocess.PIPE, stderr=subprocess.STDOUT, text=True)
    return p.returncode, p.stdout


def build(variant="plain", verbose=True):
    os.makedirs(BUILD_ROOT, exist_ok=True)
    th = tree_hash(variant)
    out = os.path.join(BUILD_ROOT, f"{th}-{variant}")
    lock = open(os.path.join(BUILD_ROOT, f".lock-{variant}"), "w")
    fcntl.flock(lock, fcntl.LOCK_EX)
    try:
        if os.path.exists(os.path.join(out, "ok")):
            try: os.utime(out)            # in use: keeps it away from prune()
            except OSError: pass
            if verbose:
                print(f"[build] tree {th} ({variant}): reused", flush=True)
            return out
        t0 = time.time()
        scratch = tempfile.mkdtemp(prefix="btcdeb-verif-", dir=os.environ.get("TMPDIR", "/var/tmp"))
        try:
            inc = ["-I" + REPO, "-I" + os.path.join(REPO, "secp256k1/include")]
            if not os.path.exists(os.path.join(REPO, "config/bitcoin-config.h")):
                os.makedirs(os.path.join(scratch, "inc/config"))
                shutil.copy(os.path.join(HERE, "fallback-bitcoin-config.h"),
                            os.path.join(scratch, "inc/config/bitcoin-config.h"))
                inc.append("-I" + os.path.join(scratch, "inc"))
            vflags = VARIANTS[variant]
            gen_enum_incs(os.path.join(scratch, "geninc"))
            inc.append("-I" + os.path.join(scratch, "geninc"))
            cxx = ["g++", "-std=c++17", "-DHAVE_CONFIG_H", "-D" + GUARD, "-w"] + vflags + inc
            jobs = []
            objs = []

            def obj(name):
                return os.path.join(scratch, name.replace("/", "_") + ".o")
            for s in LIB_SRCS + TOOL_SRCS:
                jobs.append(cxx + ["-c", os.path.join(REPO, s), "-o", obj(s)])
            for s in HARNESS_SRCS:
                jobs.append(cxx + ["-I" + HERE, "-c", os.path.join(HERE, s), "-o", obj("h_" + s)])
            jobs.append(cxx + ["-I" + HERE, "-c", os.path.join(HERE, "dumper.cpp"), "-o", obj("h_dumper.cpp")])
            jobs.append(["gcc", "-std=gnu99", "-w"] + vflags + ["-I" + os.path.join(REPO, "kerl"), "-c",
                         os.path.join(REPO, "kerl/kerl.c"), "-o", obj("kerl.c")])
            # kerl.c as /repo/Makefile.am builds it (-DHAVE_CONFIG_H: GNU readline, continuation lines): `btcdeb-rl`, and
            # harness/hx_kerl.c (the same code with a scripted line source, all symbols but krl_* made local after compiling)
            krl = ["gcc", "-std=gnu99", "-w", "-DHAVE_CONFIG_H"] + vflags + inc + ["-I" + os.path.join(REPO, "kerl"), "-c"]
            jobs.append(krl + [os.path.join(REPO, "kerl/kerl.c"), "-o", obj("kerl_rl.c")])
            jobs.append(krl + [os.path.join(HERE, "hx_kerl.c"), "-o", obj("h_hx_kerl.c")])
            secp_flags = ["-O2"] + [f for f in vflags if f.startswith("-f") or f == "--coverage" or f == "-g"]
            for s in SECP_SRCS:
                jobs.append(["gcc", "-w"] + secp_flags + SECP_DEFS +
                            ["-I" + os.path.join(REPO, "secp256k1"), "-I" + os.path.join(REPO, "secp256k1/src"),
                             "-I" + os.path.join(REPO, "secp256k1/include"), "-c", os.path.join(REPO, s), "-o", obj(s)])
            with ThreadPoolExecutor(max_workers=16) as ex:
                results = list(ex.map(run, jobs))
            for (rc, o), j in zip(results, jobs):
                if rc != 0:
                    raise BuildError("compile failed: " + " ".join(j[-4:]) + "\n" + o[-4000:])
            lib = [obj(s) for s in LIB_SRCS] + [obj(s) for s in SECP_SRCS] + [obj("kerl.c")]
            rc, o = run(["objcopy", "-w", "-G", "krl_*", obj("h_hx_kerl.c")])
            if rc != 0:
                raise BuildError("objcopy failed: " + o[-2000:])
            link_flags = [f for f in vflags if f.startswith("-fsanitize") or f == "--coverage"]
            links = [
                (["g++"] + link_flags + [obj("h_harness.cpp"), obj("h_hx_btcdeb.cpp"), obj("h_hx_kerl.c")] + lib + ["-lreadline", "-o", os.path.join(scratch, "harness")]),
                (["g++"] + link_flags + [obj("h_dumper.cpp"), obj("h_hx_btcdeb.cpp")] + lib + ["-lreadline", "-o", os.path.join(scratch, "dumper")]),
                (["g++"] + link_flags + [obj("btcdeb.cpp")] + lib + ["-lreadline", "-o", os.path.join(scratch, "btcdeb")]),
                (["g++"] + link_flags + [obj("btcdeb.cpp")] + lib[:-1] + [obj("kerl_rl.c"), "-lreadline", "-o", os.path.join(scratch, "btcdeb-rl")]),
                (["g++"] + link_flags + [obj("tap.cpp")] + lib + ["-lreadline", "-o", os.path.join(scratch, "tap")]),
                (["g++"] + link_flags + [obj("btcc.cpp")] + lib + ["-lreadline", "-o", os.path.join(scratch, "btcc")]),
            ]
            with ThreadPoolExecutor(max_workers=6) as ex:
                results = list(ex.map(run, links))
            for (rc, o), j in zip(results, links):
                if rc != 0:
                    raise BuildError("link failed: " + j[-1] + "\n" + o[-4000:])
            tmp_out = out + ".tmp%d" % os.getpid()
            shutil.rmtree(tmp_out, ignore_errors=True)
            os.makedirs(tmp_out)
            for b in ("harness", "dumper", "btcdeb", "btcdeb-rl", "tap", "btcc"):
                shutil.copy(os.path.join(scratch, b), os.path.join(tmp_out, b))
            if variant == "cov":
                # keep notes files next to a copy of objects for gcov
                os.makedirs(os.path.join(tmp_out, "gcno"))
                for f in os.listdir(scratch):
                    if f.endswith(".gcno"):
                        shutil.copy(os.path.join(scratch, f), os.path.join(tmp_out, "gcno", f))
            open(os.path.join(tmp_out, "ok"), "w").write(th)
            shutil.rmtree(out, ignore_errors=True)
            os.rename(tmp_out, out)
        finally:
            shutil.rmtree(scratch, ignore_errors=True)
        prune(variant, keep=out)
        if verbose:
            print(f"[build] tree {th} ({variant}): rebuilt in {time.time()-t0:.1f} s", flush=True)
        return out
    finally:
        fcntl.flock(lock, fcntl.LOCK_UN)
        lock.close()


def prune(variant, keep):
    ds = [os.path.join(BUILD_ROOT, d) for d in os.listdir(BUILD_ROOT) if d.endswith("-" + variant)]
    ds.sort(key=lambda d: os.path.getmtime(d), reverse=True)
    # other runs (other trees) may be using their binaries right now: only directories that nobody has touched for an hour go
    now = time.time()
    for d in ds[8:]:
        try:
            if d != keep and now - os.path.getmtime(d) > 6 * 3600:       # (a thorough run may use its binaries for more than an hour)
                shutil.rmtree(d, ignore_errors=True)
        except OSError:
            pass


class BuildError(Exception):
    pass


if __name__ == "__main__":
    v = sys.argv[1] if len(sys.argv) > 1 else "plain"
    try:
        print(build(v))
    except BuildError as e:
        print(str(e))
        sys.exit(2)
