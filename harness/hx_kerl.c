/* kerl.c of /repo in the configuration the repository's own build uses
 *   (Makefile.am: libkerl_a_CPPFLAGS = $(AM_CPPFLAGS) -Ikerl, DEFS = -DHAVE_CONFIG_H  =>  HAVE_LIBREADLINE, HAVE_READLINE_HISTORY:
 *    GNU readline as line source, the "more input needed" continuation of an unterminated quote compiled IN),
 * included unchanged.  Only its two calls into libreadline are redirected to a scripted line source that lives in
 * harness/cmd_kerl.inc, so that the continuation machine can be driven deterministically and in-process:
 *     readline(prompt)  -> hx_kerl_readline(prompt)        add_history(s) -> hx_kerl_add_history(s)
 * build.py makes every symbol of this object local except `krl_*` (objcopy -w -G 'krl_*'): the harness also links the plain
 * kerl.o (compiled WITHOUT -DHAVE_CONFIG_H by build.py: no readline, kerl's own fgets line reader, continuation compiled OUT),
 * which is what the `btcdeb` binary of the build directory contains; both configurations are observed by cmd_kerl.inc.
 */
#define _GNU_SOURCE
#include "kerl.h"
char* hx_kerl_readline(const char* prompt);
void hx_kerl_add_history(const char* s);
#define readline hx_kerl_readline
#define add_history hx_kerl_add_history
#include "kerl.c"
#undef readline
#undef add_history

#ifndef HAVE_LIBREADLINE
#error "hx_kerl.c must be compiled in the readline configuration (-DHAVE_CONFIG_H)"
#endif

int krl_make_argcv_escape(const char* a, size_t* argc, char*** argv, char e) { return kerl_make_argcv_escape(a, argc, argv, e); }
void krl_free_argcv(size_t argc, char** argv) { kerl_free_argcv(argc, argv); }
int krl_process_citation(const char* a, size_t* bytes, char** out) { return kerl_process_citation(a, bytes, out); }
int krl_more(size_t* cap, size_t* pos, char** out, const char term) { return kerl_more(cap, pos, out, term); }
char* krl_escape(const char* s) { return escape(s); }
char* krl_unescape(const char* s, int reuse) { return unescape(s, reuse); }
char* krl_stripwhite(char* s) { return stripwhite(s); }
char* krl_strdup_command(char* s) { return strdup_command(s); }
int krl_execute_line(char* s) { return execute_line(s); }
void krl_run(const char* prompt) { kerl_run(prompt); }
void krl_register(const char* name, kerl_bindable f, const char* doc) { kerl_register(name, f, doc); }
void krl_register_help(const char* name) { kerl_register_help(name); }
void krl_register_fallback(kerl_bindable f) { kerl_register_fallback(f); }
void krl_set_repeat_on_empty(int f) { kerl_set_repeat_on_empty(f); }
void krl_set_comment_char(char c) { kerl_set_comment_char(c); }
void krl_set_enable_sensitivity(void) { kerl_set_enable_sensitivity(); }
void krl_set_enable_whitespaced_sensitivity(void) { kerl_set_enable_whitespaced_sensitivity(); }
void krl_set_sensitive(int f) { kerl_set_sensitive(f); }
void krl_set_history_file(const char* p) { kerl_set_history_file(p); }
const char* krl_more_final(void) { return more_final; }
size_t krl_more_final_lines(void) { return more_final_lines; }
