#pragma once
#include <string>
#include <cstdint>
#include <cstddef>
unsigned int hx_svf_parse_flags(unsigned int in_flags, const char* mod);
std::string hx_svf_string(uint32_t flags, const std::string& sep);
unsigned int hx_svf_get_flag(const std::string& s);
size_t hx_svf_count();
const char* hx_svf_name(size_t i);
uint32_t hx_svf_id(size_t i);
unsigned int hx_standard_flags();
int hx_btcdeb_main(int argc, char* const* argv);
