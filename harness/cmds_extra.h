// one #include per harness/cmd_*.inc file.  Each .inc file defines static functions
//   static std::string cmd_xyz(const std::vector<std::string>& a)      (a[0] is the command word)
// and registers them with:   static RegisterCmd reg_xyz("XYZ", cmd_xyz);
// Helpers available from harness.cpp: hex(valtype), unhex(str, valtype&), split(str, ch), join_items, in_child(lambda), fnv1a.
#include "cmd_spend.inc"
#include "cmd_sighash.inc"
#include "cmd_listing.inc"
#include "cmd_tf.inc"
#include "cmd_dual.inc"
#include "cmd_tapbranch.inc"
#include "cmd_display.inc"
#include "cmd_kerl.inc"
