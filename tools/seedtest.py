#!/usr/bin/env python3
"""Confirm a seeded regression in its scratch worktree, store it under /verif/seeded/<name>/ and run checks against it.
usage: seedtest.py confirm <worktree> <name>     (worktree has _seed/{patch.diff,demo.sh,meta.json}, patch currently applied and built)
       seedtest.py run <name> <PID> [<PID>...]   (apply to /repo, run quick checks, revert)"""
import json, os, shutil, subprocess, sys
V = os.path.dirname(os.path.dirname(os.path.abspath(__file__)))
def sh(cmd, cwd=None, **kw):
    return subprocess.run(cmd, shell=True, cwd=cwd, stdout=subprocess.PIPE, stderr=subprocess.STDOUT, text=True, **kw)
def confirm(wt, name):
    seed = os.path.join(wt, '_seed')
    res = {}
    try: demo = json.load(open(os.path.join(seed, 'meta.json'))).get('demo_cmd') or 'bash _seed/demo.sh'
    except Exception: demo = 'bash _seed/demo.sh'
    if not os.path.exists(os.path.join(seed, 'demo.sh')) and 'demo.sh' in demo: demo = 'python3 _seed/demo.py'
    # state 1: patch applied (agent leaves it applied).  make sure
    sh('git checkout -- . && git apply _seed/patch.diff', wt)
    r = sh('make -j16 2>&1 | tail -3', wt); res['build_patched'] = r.returncode
    r = sh('./test-btcdeb 2>&1 | tail -2', wt); res['tests_patched'] = r.stdout.strip().splitlines()[-1:]
    r = sh(demo, wt); res['demo_patched_rc'] = r.returncode; res['demo_patched_tail'] = r.stdout.strip().splitlines()[-6:]
    sh('git checkout -- .', wt)
    r = sh('make -j16 2>&1 | tail -3', wt)
    r = sh(demo, wt); res['demo_clean_rc'] = r.returncode
    ok = res['demo_patched_rc'] != 0 and res['demo_clean_rc'] == 0 and any('All tests passed' in l for l in res['tests_patched'])
    res['confirmed'] = ok
    print(json.dumps(res, indent=1))
    if ok:
        dst = os.path.join(V, 'seeded', name)
        os.makedirs(dst, exist_ok=True)
        for f in os.listdir(seed):
            p = os.path.join(seed, f)
            if os.path.isfile(p) and os.path.getsize(p) < 2_000_000: shutil.copy(p, dst)
        meta_p = os.path.join(dst, 'meta.json')
        try: meta = json.load(open(meta_p))
        except Exception: meta = {}
        meta['confirmed_by_main'] = res
        json.dump(meta, open(meta_p, 'w'), indent=1)
    return ok
def run_scratch(name, pids, tier='quick'):
    """as run, but in a scratch worktree of /repo's HEAD (VERIF_REPO points the checks at it): for use while other work
    reads /repo; several of these can run at once"""
    patch = os.path.join(V, 'seeded', name, 'patch.diff')
    wt = f'/var/tmp/seedrepo_{name}'
    sh(f'git -C /repo worktree remove --force {wt}', '/')
    r = sh(f'git -C /repo worktree add -q --detach {wt} HEAD', '/')
    if r.returncode: print('worktree failed', r.stdout); return 2
    out = {}
    try:
        r = sh(f'git apply {patch}', wt)
        if r.returncode: print('apply failed', r.stdout); return 2
        for pid in pids:
            r = sh(f'VERIF_REPO={wt} VERIF_EVIDENCE_DIR=/var/tmp/seedev_{name} python3 {V}/check.py {pid} --tier {tier}', V)
            lines = [l for l in r.stdout.splitlines() if l.startswith('VIOLATION')]
            out[pid] = {'rc': r.returncode, 'lines': lines[:8], 'detected': any('no-failing-input-found' not in l or 'correspondence' in l for l in lines) and r.returncode == 1}
            print(name, pid, r.returncode, [l[:90] for l in lines[:2]], flush=True)
            if r.returncode not in (0, 1) or (r.returncode == 1 and not lines): print(r.stdout[-3000:])
    finally:
        sh(f'git -C /repo worktree remove --force {wt}', '/')
        sh(f'rm -rf /var/tmp/seedev_{name}', '/')
    p = os.path.join(V, 'seeded', name, 'detected.json')
    try: prev = json.load(open(p))
    except Exception: prev = {}
    prev.update(out)
    json.dump(prev, open(p, 'w'), indent=1)
    return 0
def run(name, pids, tier='quick'):
    patch = os.path.join(V, 'seeded', name, 'patch.diff')
    st = sh('git status --porcelain', '/repo').stdout.strip()
    if st: print('repo not clean:', st); return 2
    r = sh(f'git apply {patch}', '/repo')
    if r.returncode: print('apply failed', r.stdout); return 2
    out = {}
    try:
        for pid in pids:
            r = sh(f'python3 {V}/check.py {pid} --tier {tier}', V)
            lines = [l for l in r.stdout.splitlines() if l.startswith('VIOLATION')]
            out[pid] = {'rc': r.returncode, 'lines': lines[:8], 'detected': any('no-failing-input-found' not in l or 'correspondence' in l for l in lines) and r.returncode == 1}
            print(pid, r.returncode, [l[:90] for l in lines[:3]], flush=True)
            if r.returncode not in (0, 1): print(r.stdout[-2000:])
    finally:
        sh('git checkout -- .', '/repo')
    p = os.path.join(V, 'seeded', name, 'detected.json')
    try: prev = json.load(open(p))
    except Exception: prev = {}
    prev.update(out)
    json.dump(prev, open(p, 'w'), indent=1)
    return 0
if __name__ == '__main__':
    if sys.argv[1] == 'confirm': sys.exit(0 if confirm(sys.argv[2], sys.argv[3]) else 1)
    if sys.argv[1] == 'run': sys.exit(run(sys.argv[2], sys.argv[3:]))
    if sys.argv[1] == 'scratch': sys.exit(run_scratch(sys.argv[2], sys.argv[3:]))
