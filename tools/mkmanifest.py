#!/usr/bin/env python3
"""Writes /verif/MANIFEST.json from the table below (kept in one place so it stays valid)."""
import json
import os
VERIF = os.path.dirname(os.path.dirname(os.path.abspath(__file__)))

LEVEL_NOTE = ("Trusted: Lean 4.33.0 kernel (axioms: propext, Classical.choice, Quot.sound only; no sorry/native_decide/bv_decide, "
              "audited each run), Lean compiler for the driver, harness/dumper/check.py glue, g++. The Lean model is hand-written; "
              "it is tied to /repo on every run by tables regenerated from the working tree (dumper) and by a differential "
              "correspondence check (implementation vs model vs spec). See DESIGN.md section 5.")

CLAIMED = {
    "C18": dict(
        text="Lean theorems over unbounded Int / arbitrary byte strings: CScriptNum::serialize and set_vch (modelled line by line) are mutually "
             "inverse bijections between the integers and the strings the minimal-encoding test accepts; set_vch equals Bitcoin's "
             "sign-magnitude value on every byte string; exact length bounds (4 bytes <-> |n|<2^31, 5 <-> 2^39); the constructor accepts "
             "exactly size<=max and (minimal if required). Tie to the code: differential run of the real CScriptNum/Value code against the "
             "compiled model on all strings of length 0..2 (quick) / 0..4 (thorough, 2^32 strings) and dense integer ranges.",
        design_ref="DESIGN.md section 6 (C18)",
        technique="Lean 4 proof (induction on little-endian digits) + differential correspondence, exhaustive on <=4-byte strings in thorough tier",
    ),
}

NOT_YET = {}

ALL = ["C%02d" % i for i in range(1, 19)]


def main():
    checks = []
    for pid in ALL:
        if pid in CLAIMED:
            c = CLAIMED[pid]
            checks.append({
                "property_id": pid,
                "quick_cmd": f"python3 check.py {pid} --tier quick",
                "thorough_cmd": f"python3 check.py {pid} --tier thorough",
                "evidence_file": f"/verif/evidence/{pid}.json",
                "replay_cmd_template": f"python3 check.py {pid} --replay {{path}}",
                "engine": "lean4-proof+correspondence",
                "level_claimed": {"category": "proof", "text": c["text"], "design_ref": c["design_ref"]},
                "level_note": LEVEL_NOTE,
                "technique": c["technique"],
            })
    na = [{"property_id": pid, "reason": NOT_YET.get(pid, "check not built yet in this round; the Lean model does not cover this property's code yet (planned, see DESIGN.md section 10)")}
          for pid in ALL if pid not in CLAIMED]
    m = {
        "version": 1,
        "setup_cmd": "python3 setup.py",
        "hooks": {
            "guard": "BTCDEB_VERIF",
            "enable": "harness/build.py compiles /repo's sources out of tree with -DBTCDEB_VERIF (no guarded hook exists in the source at present)",
            "baseline_off_cmd": "cd /repo && make -j8 && ./test-btcdeb",
            "source_commits": [],
            "add_only": True,
        },
        "engines": [{
            "name": "lean4-proof+correspondence", "path": "/verif/check.py",
            "serves_properties": sorted(CLAIMED),
            "kind_free_text": "Lean 4 theorems about a hand-written executable model (lean/), tied to /repo by dumper-generated tables and a differential harness (harness/)",
        }],
        "checks": checks,
        "not_applicable": na,
        "notes": "See DESIGN.md. KNOWN_FINDINGS.txt lists genuine defects recorded rather than repaired.",
    }
    with open(os.path.join(VERIF, "MANIFEST.json"), "w") as f:
        json.dump(m, f, indent=1)


if __name__ == "__main__":
    main()
