#!/usr/bin/env python3
"""Writes /verif/MANIFEST.json from the table below (kept in one place so it stays valid)."""
import json
import os
VERIF = os.path.dirname(os.path.dirname(os.path.abspath(__file__)))

LEVEL_NOTE = ("Trusted: Lean 4.33.0 kernel (axioms: propext, Classical.choice, Quot.sound only; no sorry/native_decide/bv_decide, "
              "audited each run), Lean compiler for the driver, harness/dumper/check.py glue, g++. The Lean model is hand-written; "
              "it is tied to /repo on every run by tables regenerated from the working tree (dumper) and by a differential "
              "correspondence check (implementation vs model vs spec). See DESIGN.md section 5.")

def claim(text, design, technique):
    return dict(text=text, design_ref=design, technique=technique)


CLAIMED = {
    "C01": claim(
        "Lean theorems, for every script (any length), stack, flag set, signature version and checker: the gate HasValidOps equals the "
        "domain of the property (gate_is_domain); one StepScript of the model refines one instruction of the specification for every "
        "opcode of the switch (execOpcode_refines: 114 opcode lemmas incl. signature opcodes, FindAndDelete, BIP66 DER, the compressed "
        "condition stack), whole-script stepping refines the specification's evaluation state by state with the same error at the same "
        "operation (runOps_refines, C01_trace). The model is tied to the C++ by a three-way differential run (implementation, model, "
        "spec) after every executed operation: spec-guided deep scripts, every opcode x boundary operands, flag toggles, all scripts of <=2 bytes.",
        "DESIGN.md section 6 (C01)", "Lean 4 refinement proof (model ≈ spec per opcode, induction over the script) + per-step differential correspondence"),
    "C04": claim(
        "Lean theorem C04_rewind_exact: for every session and every history over {step, rewind} of any length in which no step fails, the "
        "state reached equals — as a whole record, including condition stack, code-separator position, signature budget, op count and the "
        "history vectors — the state of a fresh session advanced by the net number of accepted steps; refused rewinds change nothing; a rewind "
        "is accepted exactly when not at the start of the current script. Correspondence: complete {step,rewind} history trees to depth 10/14 "
        "on scripts exercising each state component, random walks, all compared with the implementation after every command.",
        "DESIGN.md section 6 (C04)", "Lean 4 invariant proof over command histories + exhaustive bounded history-tree correspondence"),
    "C07": claim(
        "Lean theorems: Value::operator>> emits the opcode byte for an opcode, the minimal push of the script number for an integer and the "
        "minimal push of exactly the given bytes for data (int_emits_minimal, data_emits_minimal); the minimal push decodes to one instruction "
        "that places exactly those bytes and satisfies the minimal-push rule (minimal_push_decodes, any length < 2^32). The lexical layer "
        "(token classification, bracket nesting) is tied by correspondence against an independent grammar-based spec compiler: every opcode "
        "name, all OP_xNN, all 1-2 byte hex literals, integer boundaries, nesting to depth 8, through Value::parse_args in-process and the btcc binary. "
        "Known finding: OP_xff.",
        "DESIGN.md section 6 (C07)", "Lean 4 proof of the emission layer + grammar-directed differential correspondence for the lexer"),
    "C08": claim(
        "Lean theorems: output/exit status are a function of the run-to-completion outcome (C08_output), run-to-completion equals stepping "
        "(C08_same_as_stepping), and no operation step ever ends abnormally — success, script error or caught exception only (step_noabn, "
        "for every opcode, script, stack, flags; C08_no_abnormal_partial: the P2SH hand-over assertion is covered by correspondence only). "
        "Correspondence: the real btcdeb binary with pipes/ptys as stdin/stdout, script on stdin or argv, -q/--debug/DEBUG_* variants.",
        "DESIGN.md section 6 (C08)", "Lean 4 proof (Hoare-style no-abnormal-outcome over the model) + process-level differential runs under pipes and ptys"),
    "C09": claim(
        "Lean theorems: on the specification every flag only restricts (execInstr_mono, evalScript_mono: success under B implies the identical "
        "run under any A ⊆ B, for every instruction incl. signature opcodes), transferred to debugger sessions through the C01 refinement "
        "(C09_mono_session); the svf table and the standard set are the generated tables proved equal to the spec. Correspondence: every "
        "+/-NAME, random/malformed lists and names up to 1000 characters through svf_parse_flags in-process, --default-flags, end-to-end -f probes, "
        "inclusion chains of flag sets on execution inputs.",
        "DESIGN.md section 6 (C09)", "Lean 4 monotonicity proof (simulation between two runs) + differential correspondence of the flag parser"),
    "C10": claim(
        "Lean theorems: where each limit sits in a step of the model with its exact bound (push_size_iff, stack_size_iff, opcount_iff, "
        "script_size_iff, numsize_iff), the code's constants are the consensus numbers (table theorems re-checked against the tree on every run), "
        "closed-form families for every k on the specification (k x OP_1 succeeds iff n+k<=1000, k x OP_NOP iff c+k<=201, tapscript exempt). "
        "Correspondence: every limit at L-1, L, L+1, L+2 for each way of reaching it x three signature versions.",
        "DESIGN.md section 6 (C10)", "Lean 4 proofs (boundary lemmas, induction on k) + generated-table obligations + boundary correspondence"),
    "C13": claim(
        "Lean theorems for all byte strings / transactions: parse then serialise reproduces the identical bytes (C13_parse_ser), serialise then "
        "parse returns the transaction (C13_ser_parse), serTx equals the declarative BIP144 encoding, txid = hash256 of the witness-stripped "
        "encoding, every strict truncation is rejected, compact sizes are accepted only in canonical form, exact satoshi conversion of decimal amounts. "
        "Correspondence: the real parse_tx / ParseFixedPoint / Instance::parse_transaction vs model vs spec vs an independent Python encoder on "
        "doc/txs, generated transactions, truncations, corruptions.",
        "DESIGN.md section 6 (C13)", "Lean 4 round-trip proofs (parser combinators) + differential correspondence with two independent encoders"),
    "C16": claim(
        "Lean theorems: exec never changes position, script, history, flags or signature version (C16_position_untouched, by the frame lemma "
        "over every opcode), each applied operation is one StepScript and therefore the specification's instruction (C16_first_op via step_refines), "
        "unknown words are refused before execution. Correspondence: every token of the vocabulary at every prefix of the session family, random "
        "operation lists, compared with the implementation and with the spec executing the tokens on the abstracted pre-state.",
        "DESIGN.md section 6 (C16)", "Lean 4 proof (frame lemma + step refinement) + differential correspondence on session prefixes"),
    "C17": claim(
        "Lean theorems: each of the 15 re-enabled opcodes refines the specified function on every stack (C17_computes), never ends abnormally "
        "(C17_total), and without the option fails as DISABLED_OPCODE (or OP_COUNT first) executed or not (C17_disabled_gate). Correspondence: "
        "exhaustive operand pairs from the boundary value set for each opcode, with/without -z, executed/unexecuted.",
        "DESIGN.md section 6 (C17)", "Lean 4 refinement proof per opcode + exhaustive boundary-set correspondence"),
    "C18": claim(
        "Lean theorems over unbounded Int / arbitrary byte strings: CScriptNum::serialize and set_vch (modelled line by line) are mutually "
        "inverse bijections between the integers and the strings the minimal-encoding test accepts; that test accepts exactly the unique "
        "shortest encoding of each value (minimal_iff); set_vch equals Bitcoin's sign-magnitude value on every byte string; exact length bounds "
        "(4 bytes <-> |n|<2^31, 5 <-> 2^39). Correspondence: all strings of length 0..2 (quick) / 0..4 (thorough, 2^32 strings), dense integer ranges.",
        "DESIGN.md section 6 (C18)", "Lean 4 proof (induction on little-endian digits) + exhaustive correspondence on <=4-byte strings in the thorough tier"),
}

NOT_YET = {}

ALL = ["C%02d" % i for i in range(1, 19)]


def main():
    checks = []
    for pid in ALL:
        if pid in CLAIMED:
            c = CLAIMED[pid]
            checks.append({
                "property_id": pid,
                "quick_cmd": f"python3 check.py {pid} --tier quick",
                "thorough_cmd": f"python3 check.py {pid} --tier thorough",
                "evidence_file": f"/verif/evidence/{pid}.json",
                "replay_cmd_template": f"python3 check.py {pid} --replay {{path}}",
                "engine": "lean4-proof+correspondence",
                "level_claimed": {"category": "proof", "text": c["text"], "design_ref": c["design_ref"]},
                "level_note": LEVEL_NOTE,
                "technique": c["technique"],
            })
    na = [{"property_id": pid, "reason": NOT_YET.get(pid, "check not built yet in this round; the Lean model does not cover this property's code yet (planned, see DESIGN.md section 10)")}
          for pid in ALL if pid not in CLAIMED]
    m = {
        "version": 1,
        "setup_cmd": "python3 setup.py",
        "hooks": {
            "guard": "BTCDEB_VERIF",
            "enable": "harness/build.py compiles /repo's sources out of tree with -DBTCDEB_VERIF (no guarded hook exists in the source at present)",
            "baseline_off_cmd": "cd /repo && make -j8 && ./test-btcdeb",
            "source_commits": [],
            "add_only": True,
        },
        "engines": [{
            "name": "lean4-proof+correspondence", "path": "/verif/check.py",
            "serves_properties": sorted(CLAIMED),
            "kind_free_text": "Lean 4 theorems about a hand-written executable model (lean/), tied to /repo by dumper-generated tables and a differential harness (harness/)",
        }],
        "checks": checks,
        "not_applicable": na,
        "notes": "See DESIGN.md. KNOWN_FINDINGS.txt lists genuine defects recorded rather than repaired.",
    }
    with open(os.path.join(VERIF, "MANIFEST.json"), "w") as f:
        json.dump(m, f, indent=1)


if __name__ == "__main__":
    main()
