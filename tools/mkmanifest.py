#!/usr/bin/env python3
"""Writes /verif/MANIFEST.json from the table below (kept in one place so it stays valid)."""
import json
import os
VERIF = os.path.dirname(os.path.dirname(os.path.abspath(__file__)))

LEVEL_NOTE = ("Trusted: Lean 4.33.0 kernel (axioms: propext, Classical.choice, Quot.sound only; no sorry/native_decide/bv_decide, "
              "audited each run), Lean compiler for the driver, harness/dumper/check.py glue, g++. The Lean model is hand-written; "
              "it is tied to /repo on every run by tables regenerated from the working tree (dumper) and by a differential "
              "correspondence check (implementation vs model vs spec). See DESIGN.md section 5.")

def claim(text, design, technique):
    return dict(text=text, design_ref=design, technique=technique)


CLAIMED = {
    "C01": claim(
        "Lean theorems, for every script (any length), stack, flag set, signature version and checker: the gate HasValidOps equals the "
        "domain of the property (gate_is_domain); one StepScript of the model refines one instruction of the specification for every "
        "opcode of the switch (execOpcode_refines: 114 opcode lemmas incl. signature opcodes, FindAndDelete, BIP66 DER, the compressed "
        "condition stack), whole-script stepping refines the specification's evaluation state by state with the same error at the same "
        "operation (runOps_refines, C01_trace; C01_trace_base discharges the checker hypothesis for the transaction-less sessions the check runs). The model is tied to the C++ by a three-way differential run (implementation, model, "
        "spec) after every executed operation: spec-guided deep scripts, every opcode x boundary operands, flag toggles, all scripts of <=2 bytes, near-P2SH shapes, "
        "two scripts in a row. What the user sees of the state — the commands stack / altstack / vfexec — is modelled too (C01Display): exact text, and faithfulness "
        "(readStack (printStack st) = some st; equal displays imply equal stacks and equal nesting up to what the compressed condition stack stores), composed with the "
        "refinement over step/rewind histories (C01_display_trace, C01_display_history); the real fn_stack/fn_altstack/fn_vfexec output is compared after every command.",
        "DESIGN.md section 6 (C01)", "Lean 4 refinement proof (model ≈ spec per opcode, induction over the script) + per-step differential correspondence"),
    "C02": claim(
        "Lean theorems for every transaction, input index, amount, script code, hash type, annex and code-separator position: the legacy, BIP143 and "
        "BIP341/342 digests computed by SignatureHash / SignatureHashSchnorr (modelled with CTransactionSignatureSerializer, the PrecomputedTransactionData "
        "caches and every failure return) equal the digests the BIPs define (legacySighash_eq_spec_partial for script codes that decode — always the case in a "
        "session, decode_of_hasValidOps —, bip143Sighash_eq_spec, schnorrSighash_eq_spec, schnorrSighash_none_iff); the transaction checker accepts exactly "
        "the valid signatures (checkECDSA_eq_spec, checkSchnorr_eq_spec with error codes, BIP65/BIP112 lock times); a session using the transaction checker "
        "refines the specification run with the BIP oracle state by state (C02_trace, C02_opcode: every query the session makes is answered alike — sameOn_tx, "
        "runOps_congr with the invariant that the hashed script code decodes, decode_findAndDelete); opcode-level tables on the specification and their model "
        "corollaries: OP_CHECKSIG(VERIFY) true exactly when ecdsaSigValid (C02_checksig_true_iff, C02_model_checksig_accepts_iff), the encoding error selected "
        "by each flag (sigEncoding_*_iff, keyEncoding_*_iff, NULLFAIL, CONST_SCRIPTCODE), tapscript CHECKSIG/CHECKSIGADD with the 50-unit charge, empty signature, "
        "unknown key types (checkSig_tapscript, C02_tapscript_weight), CHECKMULTISIG = in-order matching (matchSigs_inorder, NULLDUMMY). Key path (no script) is in C03. "
        "Correspondence: digests x all 256 hash types x kinds with an independent Python voice, checker on signed inputs and their corruptions, real-chain signatures, "
        "explicit-script sessions under legacy/BIP143 rules and tapscript leaves signed by the independent signer with per-field corruptions under flag subsets.",
        "DESIGN.md section 6 (C02)", "Lean 4 proofs (serializer = BIP digest, checker = validity predicate, congruence of the interpreter in its checker, opcode tables) + four-voice differential correspondence"),
    "C03": claim(
        "Lean theorems, for every transaction pair and flag set, first for any checker that agrees with the specification's oracle (CheckerAgrees) and then "
        "— that hypothesis being false of the real checker as a function equality (C02.no_cfgRel_tx) — for the checker the session really builds "
        "(C03Tx: C03_verdict_tx for txCheckerWith, C03_verdict_session for Glue.checkerBuilder, via session-level congruence of the interpreter in the "
        "queries it makes: session_congr, keypath_congr, sameOn_spend; remaining hypothesis: a P2SH redeem script decodes): input selection is the "
        "specification's (C03_select, _refused, _sound: the selected input must reference the funding transaction, else the first that does; the output "
        "must exist); per output type, a refusal by configure_tx_txin / setup_environment happens only for an input VerifyScript rejects, and otherwise "
        "the session run to its end (any fuel >= continueFuel; + 519 for P2SH) finishes without error with exactly the final stack validation requires iff "
        "VerifyScript accepts: legacy incl. SIGPUSHONLY, CLEANSTACK and SCRIPT_SIZE of either script (C03_legacy, _iff, _refused_configure, _refused_setup), "
        "P2SH with push-only check, stack copy and redeem script on the rest (C03_p2sh), native P2WPKH / P2WSH with the hash checks = WITNESS_PROGRAM_MISMATCH / "
        "EQUALVERIFY, item limits, implicit CLEANSTACK (C03_p2wpkh, C03_p2wsh), P2SH-wrapped P2WPKH / P2WSH where the unexecuted P2SH layer is shown equal to the "
        "HASH160 comparison (C03_p2sh_p2wpkh, C03_p2sh_p2wsh), a witness behind a scriptSig on a non-P2SH output refused = rejected (C03_witness_not_p2sh), "
        "taproot key path = the BIP340 check with annex handling (C03_keypath), tapscript = C05 commitment phase then the leaf with leaf hash, annex and "
        "validation weight witness size + 50 (C03_tapscript); all cases together (C03_verdict over Shape) and the case list is complete for every spend the "
        "debugger accepts (C03_shape_complete). Built on a phase lemma (one script phase of the session = Spec.evalScript of that script: phase_aligned, "
        "phase_base) and on position independence of legacy/segwit-v0 evaluation (resCore_evalFrom, all opcodes). Explicit exclusions, each a recorded finding: "
        "F-C03-empty-witness, F-C03-undefined-opcode-refused (NoUndefinedOpcode), F-C03-empty-scriptpubkey, F-C03-witness-flag-off (flags P2SH/WITNESS/TAPROOT "
        "assumed set), F-C03-future-witness-version (leaf version 0xc0; wrapped v1), F-C03-op-success-refused, F-C03-multi-input-taproot; plus 'the witness "
        "program is not an all-zero value' (needs a hash preimage). Correspondence: the start-up sequence of main + the session in-process vs model vs "
        "Spec.verifyInput: ten output types x input position / --select (right, wrong, out of range) x valid and invalid satisfactions by an independent "
        "signer (signature bit, amount, output, sequence, locktime, version, witness items, program, control block) x flag modifications, hand-built rule cases "
        "(per-script limits, push-only, P2SH shapes, witness sizes, malleated scriptSigs, future versions), the real-chain pairs of doc/txs.",
        "DESIGN.md section 6 (C03)", "Lean 4 proof (phase-wise refinement of the session to VerifyScript per output type, symbolic evaluation of the fixed scripts) + three-voice differential correspondence"),
    "C04": claim(
        "Lean theorem C04_rewind_exact: for every session and every history over {step, rewind} of any length in which no step fails, the "
        "state reached equals — as a whole record, including condition stack, code-separator position, signature budget, op count and the "
        "history vectors — the state of a fresh session advanced by the net number of accepted steps; refused rewinds change nothing; a rewind "
        "is accepted exactly when not at the start of the current script. Correspondence: complete {step,rewind} history trees to depth 10/14 "
        "on scripts exercising each state component, random walks, all compared with the implementation after every command.",
        "DESIGN.md section 6 (C04)", "Lean 4 invariant proof over command histories + exhaustive bounded history-tree correspondence"),
    "C05": claim(
        "Lean theorems for every control block, script and program: after i iterations the hash the stepwise check displays is the i-th element of "
        "BIP341's Merkle chain (TapLeaf hash folded with the path nodes in lexicographic order; C05_intermediate), the run ends Done exactly when "
        "bip341Valid holds and Failed otherwise, never stuck (C05_run_eq, C05_done_iff, C05_run_fuel), the size rule 33+32m, m<=128 is what "
        "configure_tx_txin enforces before the environment exists (C05_size_gate, _reject, _never, C05_size_iff), the leaf hash it stores is BIP341's "
        "TapLeaf hash and is the one handed to the signature digest when the phase completes (C05_leaf_hash, C05_leaf_hash_step), end to end for a "
        "configured tapscript session (C05_session_commitment); the model's hash/tweak functions are the specification's for the concrete SHA-256 / "
        "secp256k1 instance (glue_agree). Correspondence: TaprootCommitmentEnv in-process vs model vs spec vs an independent Python BIP341 implementation: "
        "path lengths 0..8,16,31..33,64,127,128 (all 0..128 thorough), random / prefix-sharing / equal nodes, all 128 leaf versions x both parities, keys on and "
        "off the curve, every single-field corruption; tapscript sessions built and signed by the independent signer, control blocks of wrong size.",
        "DESIGN.md section 6 (C05)", "Lean 4 proof (induction over the path, refinement to bip341Valid) + four-voice differential correspondence"),
    "C11": claim(
        "Lean theorems for every checker (transaction context), flag set and signature version: a listed (signature, key) pair makes EvalChecksig succeed "
        "before any encoding rule or real verification (C11_listed_accepted_checksig and the OP_CHECKSIG/VERIFY/ADD corollaries), in OP_CHECKMULTISIG a listed "
        "pair is consumed without encoding checks or checkECDSA and in-order listed signatures for a subsequence of the keys succeed (C11_listed_multisig_step, "
        "_run, C11_listed_accepted_multisig); another signature for a listed key gains nothing from the option (C11_other_signature_not_accepted, _multisig_step); "
        "unlisted keys are unaffected at every level up to whole scripts: if along the run without the option every executed signature opcode examines only "
        "unlisted keys, the run with the option visits the same states and ends alike (C11_unlisted_unaffected, C11_execOp_unlisted, C11_evalInstrs_unlisted, "
        "C11_script_unlisted); the option parser accepts exactly the well-formed lists and, for EVERY well-formed list (a signature may be listed for several keys, "
        "a key with several signatures, a pair repeatedly), builds a key set and a duplicate-free pair set denoting exactly the listed pairs (parse_accepts, "
        "parse_rejects, parse_agree_tables, parse_gives_CfgRel_clauses, parse_gives_mockHit; same_sig_two_keys_tables/_effect for the list S:P1,S:P2); joined "
        "end to end from the option text to the opcodes (C11_text_listed_checksig, _OP_CHECKSIG/VERIFY/ADD, _multisig, C11_text_unlisted_pair_checksig, "
        "_multisig_step, C11_text_unlisted_keys_multisig, C11_text_CfgRel_clauses). Correspondence: pair lists (incl. one signature under two keys, which must be "
        "accepted for both) x scripts with CHECKSIG/VERIFY/MULTISIG/ADD using listed, unlisted, crossed pairs x three signature "
        "versions x flag sets, metamorphic with/without the option, malformed lists.",
        "DESIGN.md section 6 (C11)", "Lean 4 proofs (short-circuit lemmas, non-interference by induction over the run, parser equivalence) + differential and metamorphic correspondence"),
    "C06": claim(
        "Lean theorems for every list of leaf scripts (any n >= 1) and every leaf index: tap's pairing loop, leftover handling and merge "
        "passes (the literal erase/overwrite loop proved equal to the pairing recursion) end with one tree whose stored root is the BIP341 "
        "Merkle root of a script tree having exactly the given scripts as leaves, in order, each once, of height <= ceil(log2 n) "
        "(tap_tree_is_bip341_tree); the path Prove emits is the leaf's entry of the BIP341 path table and control block + script verify "
        "under bip341Valid against the tweaked key (tap_control_verifies_any_count for n <= 2^128, tap_control_verifies for the tool's "
        "1..1024); the debugger's TaprootCommitmentEnv iterated to its end answers Done (tap_accepted_by_debugger); address, key, parity, "
        "root and tweak do not depend on the selected leaf (tap_address_independent_of_selection); the key is the BIP341 output key "
        "(tap_address_is_bip341_output_key); hash length and tweak create/check consistency are proved for the SHA-256/secp256k1 instance. "
        "The digest clause rests on the Sighash theorems (schnorrSighash_eq_spec: SignatureHashSchnorr = BIP341/342 digest when the data is ready; "
        "calcSighashTxData_multi_input_aborts) and on correspondence of calc_sighash. Correspondence: the real tap binary under ptys with --tx/--txin vs "
        "model vs spec vs an independent Python BIP341/bech32m/sighash reference, exhaustive over (n, index) for n = 1..64, random n up to 1024, "
        "argument-level stream, every emitted triple fed to the debugger's own commitment check.",
        "DESIGN.md section 6 (C06)", "Lean 4 proof (tree-construction invariants, Merkle-path induction, refinement to bip341Valid and to the debugger's stepwise check) + exhaustive (n,index) process-level correspondence with an independent reference"),
    "C07": claim(
        "Lean theorems: Value::operator>> emits the opcode byte for an opcode, the minimal push of the script number for an integer and the "
        "minimal push of exactly the given bytes for data (int_emits_minimal, data_emits_minimal); the minimal push decodes to one instruction "
        "that places exactly those bytes and satisfies the minimal-push rule (minimal_push_decodes, any length < 2^32). Lexical layer (C07Lexer): "
        "the tokenizer of a bracket body yields the grammar's words (tokenize_eq_splitWords), word classification equals the grammar's token reader for "
        "every word — canonical decimal integers in the int64 range, opcode names with/without OP_ and OP_xNN for every byte NN (parseOpCode_eq_readOpcode: ParseOpCode = the grammar's name reader on all byte strings), "
        "hex literals (classify_eq_readTok) —, and for every program of the grammar at any nesting depth btcc assembles exactly compileToks of its tokens "
        "(btcc_eq_compile, no token excepted; btcc_opx / btcc_opx_byte: OP_xNN and xNN assemble to the byte NN for all 256 bytes, ff included since /repo a4419d3). Correspondence against the "
        "independent grammar-based spec compiler: every opcode name, all OP_xNN (also against an expectation written in the check, alone and inside brackets), all 1-2 byte hex literals, integer boundaries, nesting to depth 8, through "
        "Value::parse_args in-process and the btcc binary.",
        "DESIGN.md section 6 (C07)", "Lean 4 proof of the emission layer + grammar-directed differential correspondence for the lexer"),
    "C08": claim(
        "Lean theorems: output/exit status are a function of the run-to-completion outcome (C08_output), run-to-completion equals stepping "
        "(C08_same_as_stepping), and neither a step nor the run to completion ever ends abnormally — success, script error or caught exception only "
        "(step_noabn for every opcode, script, stack, flags; C15_run_never_abnormal / C15_noninteractive_never_abnormal for whole sessions). "
        "Correspondence: the real btcdeb binary with pipes/ptys as stdin/stdout, script on stdin or argv, -q/--debug/DEBUG_* variants.",
        "DESIGN.md section 6 (C08)", "Lean 4 proof (Hoare-style no-abnormal-outcome over the model) + process-level differential runs under pipes and ptys"),
    "C09": claim(
        "Lean theorems: on the specification every flag only restricts (execInstr_mono, evalScript_mono: success under B implies the identical "
        "run under any A ⊆ B, for every instruction incl. signature opcodes), transferred to debugger sessions through the C01 refinement "
        "(C09_mono_session); the svf table and the standard set are the generated tables proved equal to the spec; svf_parse_flags (with its 128-byte buffer "
        "bound) equals the specification of the option on every text for 32-bit flag words (parse_exact_partial, parse_exact_iff with the exact difference set "
        "beyond unsigned int), changes only bits of named flags (parse_only_restricts_or_extends), and svf_string lists exactly the named set bits (svf_string_exact). Correspondence: every "
        "+/-NAME, random/malformed lists and names up to 1000 characters through svf_parse_flags in-process, --default-flags, end-to-end -f probes, "
        "inclusion chains of flag sets on execution inputs.",
        "DESIGN.md section 6 (C09)", "Lean 4 monotonicity proof (simulation between two runs) + differential correspondence of the flag parser"),
    "C10": claim(
        "Lean theorems: where each limit sits in a step of the model with its exact bound (push_size_iff, stack_size_iff, opcount_iff, "
        "script_size_iff, numsize_iff), the code's constants are the consensus numbers (table theorems re-checked against the tree on every run), "
        "closed-form families for every k on the specification (k x OP_1 succeeds iff n+k<=1000, k x OP_NOP iff c+k<=201, tapscript exempt). "
        "Correspondence: every limit at L-1, L, L+1, L+2 for each way of reaching it x three signature versions.",
        "DESIGN.md section 6 (C10)", "Lean 4 proofs (boundary lemmas, induction on k) + generated-table obligations + boundary correspondence"),
    "C12": claim(
        "Lean theorems, for every session (plain script, legacy spend with scriptPubKey and P2SH sections, P2WSH, taproot script path of any length), "
        "pushes of any length, any checker, and every history of step/rewind commands as the debugger performs them — failing steps and refused commands "
        "included (a failed step is the identity on the session): the listing btcdeb.cpp builds is exactly the execution-order decoding of the session "
        "(C12_listing_exact: one line per commitment step, every instruction by name or by all the bytes it pushes, the redeem script of a P2SH scriptPubKey "
        "being what the last scriptSig instruction leaves on the stack, proved equal to the stack top at hand-over for push-only scriptSigs: predOk_holds), "
        "curr_op_seq is never negative, the marked/echoed line is the operation the next step performs and nothing is marked at the end "
        "(C12_session, C12_marked_line, C12_marker_histories/_reach, C12_nothing_pending_at_end, pending_is_next_step; invariant 'listing = executed prefix ++ "
        "plan of the rest' over all six kinds of step, rewinds via C04_rewind_exact). Remaining explicit hypotheses describe what setup_environment/configure_tx_txin "
        "establish (setup_fresh). Correspondence: start-up code of btcdeb.cpp main run in-process with commands played "
        "through the real fn_step/fn_rewind/fn_print and their printed output parsed, cross-checked against the real binary under a pseudo-terminal; three-way "
        "(implementation, model, execution-plan spec) after every command: all opcodes and push encodings incl. 509-520 byte pushes, complete {step,rewind} trees, "
        "every spend kind, path lengths 0..4 (7, 128), doc/txs, malformed and failing sessions, regression cases of the repaired defects. The two-column step display (print_dualstack) is modelled with its two static column widths as explicit state (C12Dual): "
        "for every state of every session the left column is exactly the operations still to execute (first line = the next step, nothing at the end: C12_dual_left_session, "
        "C12_dual_first_is_next_op, C12_dual_nothing_pending_at_end), the right column the stack top first, cells shown in full up to 66 characters else 63 + '...', widths "
        "monotone, rows aligned; the real print_dualstack output is compared after every command in one process, plus a Python layout oracle and pty sessions.",
        "DESIGN.md section 6 (C12)", "Lean 4 invariant proof over command histories (listing = executed prefix ++ plan of the rest) + in-process and pty differential correspondence"),
    "C13": claim(
        "Lean theorems for all byte strings / transactions: parse then serialise reproduces the identical bytes (C13_parse_ser), serialise then "
        "parse returns the transaction (C13_ser_parse), serTx equals the declarative BIP144 encoding, txid = hash256 of the witness-stripped "
        "encoding, every strict truncation is rejected, compact sizes are accepted only in canonical form, exact satoshi conversion of decimal amounts. "
        "Correspondence: the real parse_tx / ParseFixedPoint / Instance::parse_transaction vs model vs spec vs an independent Python encoder on "
        "doc/txs, generated transactions, truncations, corruptions.",
        "DESIGN.md section 6 (C13)", "Lean 4 round-trip proofs (parser combinators) + differential correspondence with two independent encoders"),
    "C14": claim(
        "Lean theorems for all inputs: EncodeBase58 is the positional base-58 numeral with the leading-zero rule; Base58 / Base58Check decode(encode x) = x, "
        "every accepted string is the encoding of its result (a corrupted string is never accepted as the original payload), and the scratch buffers of "
        "base58.cpp always suffice (256^100 < 58^138, 58^1000 < 256^733: the carry assertion cannot fail); PolyMod, Encode and Decode of bech32.cpp equal the "
        "BIP173/BIP350 reference functions on every input, the created checksum verifies with constant 1 / 0x2bc830a3, Decode(Encode) = id for valid hrp / 5-bit "
        "data / <= 90 characters, Decode accepts only encodings, one wrong data symbol is always detected; ConvertBits 8->5 / 5->8 equal the value-based regrouping "
        "and round-trip; hash transforms are Crypto.sha256/ripemd160/hash256/hash160/taggedHash on the denoted bytes; compact-size prefix (always a data value) "
        "decodes back; reverse is an involution; add/sub are (a±b) mod g on the integers for all operands (mod 2^256 without modulus); the Jacobi loop equals the "
        "recursive reciprocity law; extract_values reads back exactly the operands written (numbers -1..16 and empty values included); base58chk/bech32/address "
        "transforms invert each other; addr-to-scriptpubkey, bech32-decode and verify-sig end normally on every value and yield data only from genuine encodings; "
        "inline form = command form for every row of the tf table, under the do_exec name and under the name tf -h prints, down to the text name(arg) (inline_text), and "
        "OP_SHA256/RIPEMD160/HASH160/HASH256 push the transform's bytes. Correspondence: every tf table entry x argument shapes x lengths across 55/56/64, 252/253, "
        "65535/65536, all single-character corruptions of sample base58check/bech32/bech32m strings, arithmetic/Jacobi/key/signature grids and the reproducers of "
        "the repaired defects, through fn_tf and the Value parser in-process (stdout, stderr, return value), an interactive btcdeb pty session and the btcc "
        "binary, against the Lean model, the Lean specification and an independent Python oracle.",
        "DESIGN.md section 6 (C14)", "Lean 4 proofs (numeral uniqueness, GF(2)-linearity of the BCH remainder, state invariants of ConvertBits, totality by composition) + four-voice differential correspondence"),
    "C15": claim(
        "Every place where the C++ can die (assertion, arithmetic trap, out-of-bounds access, uncaught exception) is an explicit outcome of the Lean models; "
        "theorems show these outcomes unreachable from the tools' entry points: no interpreter step ends abnormally (step_noabn, every opcode); for every state "
        "reachable from setup_environment by step / rewind / exec no session step, no exec and no run-to-completion ends abnormally "
        "(C15_session_never_abnormal, C15_run_never_abnormal, C15_noninteractive_never_abnormal), given a checker that does not assert on calls whose execution "
        "data is initialised, which is proved of the transaction checker for every input index in range (C15_txChecker_noabn, C15_glue_checker_noabn) together "
        "with the fact that configure_tx_txin / setup establish that initialisation (C15_configure_edReady, C15_spendSetup_good, C15_spend_init_never_asserts, "
        "C15_spend_session_never_abnormal); the start-up sequence can only end abnormally through the value-expression evaluator, and there only through one "
        "named site (C15_spendSetup_abnormal_only_pretend, C15_btcc_only_int, C15_valueData_only_int; that site was reproduced on the real code and repaired); "
        "the P2SH hand-over guard is dead code without exec (C15_p2sh_saved_stack_nonempty). The models carry only the crash sites that reading found: memory "
        "safety of the C++ itself is OBSERVED, not proved — every input stream of the other checks plus structure-aware mutations of them (truncation, "
        "length-field corruption, oversized counts, out-of-range indices, nesting) runs on AddressSanitizer + UndefinedBehaviorSanitizer builds of the tree "
        "(native harness and the three binaries under pipes and ptys, complete {step, rewind, exec} command trees on failing scripts), and a sample under "
        "valgrind memcheck; any signal, sanitizer report or escaped exception is a violation with the input as replay. The interactive line layer kerl.c is modelled "
        "function by function with every buffer access explicit (C15Kerl): whole sessions in both build configurations, any sequence of lines / stdin bytes / history "
        "file content, have no abnormal outcome up to the int size bound (C15_kerl_run_safe, C15_kerl_run_raw_safe, C15_kerl_historyLoad, C15_kerl_makeArgcv_safe); the real "
        "kerl functions run in-process on plain and sanitizer builds against that model, plus pty sessions on btcdeb with and without readline.",
        "DESIGN.md section 6 (C15)", "Lean 4 proofs of unreachability of the modelled crash sites (invariants over reachable session states, checker totality) + sanitizer-build execution of all streams and mutations"),
    "C16": claim(
        "Lean theorems: exec never changes position, script, history, flags or signature version (C16_position_untouched, by the frame lemma "
        "over every opcode), each applied operation is one StepScript and therefore the specification's instruction (C16_first_op via step_refines), "
        "unknown words are refused before execution. Correspondence: every token of the vocabulary at every prefix of the session family, random "
        "operation lists, exec after a failed step, compared with the implementation and with the spec executing the tokens on the abstracted pre-state. From the typed line to "
        "the operations (C16Kerl): the argv the command receives is exactly the words of the line (quotes, escapes, continuation lines: C16_kerl_argv_single/_continued), "
        "`exec a b c` reaches the exec model with [a,b,c] (C16_kerl_exec_line), dispatch is by exact command name; OP_xNN tokens denote byte NN for every NN (C16_exec_opx).",
        "DESIGN.md section 6 (C16)", "Lean 4 proof (frame lemma + step refinement) + differential correspondence on session prefixes"),
    "C17": claim(
        "Lean theorems: each of the 15 re-enabled opcodes refines the specified function on every stack (C17_computes), never ends abnormally "
        "(C17_total), and without the option fails as DISABLED_OPCODE (or OP_COUNT first) executed or not (C17_disabled_gate). Correspondence: "
        "exhaustive operand pairs from the boundary value set for each opcode, with/without -z, executed/unexecuted.",
        "DESIGN.md section 6 (C17)", "Lean 4 refinement proof per opcode + exhaustive boundary-set correspondence"),
    "C18": claim(
        "Lean theorems over unbounded Int / arbitrary byte strings: CScriptNum::serialize and set_vch (modelled line by line) are mutually "
        "inverse bijections between the integers and the strings the minimal-encoding test accepts; that test accepts exactly the unique "
        "shortest encoding of each value (minimal_iff); set_vch equals Bitcoin's sign-magnitude value on every byte string; exact length bounds "
        "(4 bytes <-> |n|<2^31, 5 <-> 2^39). Correspondence: all strings of length 0..2 (quick) / 0..4 (thorough, 2^32 strings), dense integer ranges.",
        "DESIGN.md section 6 (C18)", "Lean 4 proof (induction on little-endian digits) + exhaustive correspondence on <=4-byte strings in the thorough tier"),
}

NOT_YET = {}

ALL = ["C%02d" % i for i in range(1, 19)]


def main():
    checks = []
    for pid in ALL:
        if pid in CLAIMED:
            c = CLAIMED[pid]
            checks.append({
                "property_id": pid,
                "quick_cmd": f"python3 check.py {pid} --tier quick",
                "thorough_cmd": f"python3 check.py {pid} --tier thorough",
                "evidence_file": f"/verif/evidence/{pid}.json",
                "replay_cmd_template": f"python3 check.py {pid} --replay {{path}}",
                "engine": "lean4-proof+correspondence",
                "level_claimed": {"category": "proof", "text": c["text"], "design_ref": c["design_ref"]},
                "level_note": LEVEL_NOTE,
                "technique": c["technique"],
            })
    na = [{"property_id": pid, "reason": NOT_YET.get(pid, "check not built yet in this round; the Lean model does not cover this property's code yet (planned, see DESIGN.md section 10)")}
          for pid in ALL if pid not in CLAIMED]
    m = {
        "version": 1,
        "setup_cmd": "python3 setup.py",
        "hooks": {
            "guard": "BTCDEB_VERIF",
            "enable": "harness/build.py compiles /repo's sources out of tree with -DBTCDEB_VERIF (no guarded hook exists in the source at present)",
            "baseline_off_cmd": "cd /repo && make -j8 && ./test-btcdeb",
            "source_commits": [],
            "add_only": True,
        },
        "engines": [{
            "name": "lean4-proof+correspondence", "path": "/verif/check.py",
            "serves_properties": sorted(CLAIMED),
            "kind_free_text": "Lean 4 theorems about a hand-written executable model (lean/), tied to /repo by dumper-generated tables and a differential harness (harness/)",
        }],
        "checks": checks,
        "not_applicable": na,
        "notes": "See DESIGN.md. KNOWN_FINDINGS.txt lists genuine defects recorded rather than repaired.",
    }
    with open(os.path.join(VERIF, "MANIFEST.json"), "w") as f:
        json.dump(m, f, indent=1)


if __name__ == "__main__":
    main()
