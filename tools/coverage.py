#!/usr/bin/env python3
"""Development aid (not a registered check): run the quick tier of the checks on a --coverage build of /repo and list the
lines of the anchored source files that no stream reaches.  usage: coverage.py [PID ...]"""
import glob, os, re, shutil, subprocess, sys
V = os.path.dirname(os.path.dirname(os.path.abspath(__file__)))
sys.path.insert(0, V)
from harness import build
pids = sys.argv[1:] or ["C%02d" % i for i in range(1, 19)]
out = build.build("cov")
data = "/var/tmp/btcdeb-covdata"
shutil.rmtree(data, ignore_errors=True)
os.makedirs(data)
for f in glob.glob(os.path.join(out, "gcno", "*.gcno")):
    shutil.copy(f, data)
env = dict(os.environ, VERIF_VARIANT="cov", GCOV_PREFIX=data, GCOV_PREFIX_STRIP="99")
for pid in pids:
    r = subprocess.run(["python3", os.path.join(V, "check.py"), pid], cwd=V, env=env, stdout=subprocess.PIPE, stderr=subprocess.STDOUT, text=True)
    print(pid, "rc", r.returncode, [l for l in r.stdout.splitlines() if l.startswith("[evidence]")][-1:], flush=True)
os.chdir(data)
files = ["script_interpreter.cpp", "h_hx_btcdeb.cpp", "h_harness.cpp", "debugger_interpreter.cpp", "instance.cpp", "value.cpp", "btcdeb.cpp", "functions.cpp", "tap.cpp", "btcc.cpp",
         "script_script.cpp", "base58.cpp", "bech32.cpp", "util_strencodings.cpp", "debugger_script.cpp", "pubkey.cpp", "hash.cpp", "primitives_transaction.cpp"]
rep = {}
for f in files:
    g = f + ".gcda"
    if not os.path.exists(g):
        print("no data for", f); continue
    subprocess.run(["gcov", "-p", "-b", "-c", g], stdout=subprocess.PIPE, stderr=subprocess.PIPE, text=True)
for gc in sorted(glob.glob("*.gcov")):
    src = None; unc = []; tot = 0
    for l in open(gc, errors="replace"):
        m = re.match(r"\s*([^:]+):\s*(\d+):(.*)", l)
        if not m: continue
        cnt, ln, text = m.group(1).strip(), int(m.group(2)), m.group(3)
        if ln == 0 and "Source:" in text: src = text.split("Source:")[1].strip()
        if cnt == "-": continue
        tot += 1
        if cnt in ("#####", "====="): unc.append((ln, text.strip()[:110]))
    if src and src.startswith("/repo/") and not src.startswith("/repo/secp256k1") and tot:
        rep[src] = (tot, unc)
with open(os.path.join(V, "coverage_report.txt"), "w") as fo:
    for src, (tot, unc) in sorted(rep.items()):
        fo.write(f"== {src}: {tot - len(unc)}/{tot} lines reached\n")
        for ln, t in unc:
            fo.write(f"   {ln}: {t}\n")
print("written", os.path.join(V, "coverage_report.txt"))
shutil.rmtree(data, ignore_errors=True)
